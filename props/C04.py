"""C04 -- custom content is admitted only on request and is always detected."""
import copy, json
import z3
from vf.pyvc.lib import REG
from vf import tables as T, objgen as G
from contracts import cleaners as K, parsing as KP
from props import _objects as O

LEVEL = 'other'
CUSTOM_REF_TYPES = ['x-custom-thing', 'my-unregistered-type', 'tlp', 'statement', 'ntfs-ext', 'windows-pebinary-ext', 'extension-definition-x']


def injections(d, ver, cat, tables):
    """(site, kind, JSON with one piece of custom content injected)"""
    cname = f'{cat}:{d["type"]}'
    props = tables[cname]['properties']
    def put(path, value):
        c = copy.deepcopy(d); cur = c
        for k in path[:-1]: cur = cur[k]
        cur[path[-1]] = value
        return c
    yield ('top level', 'custom property (x_ prefix)', put(['x_custom'], 1))
    yield ('top level', 'custom property (no prefix)', put(['foo_custom'], 'v'))
    for pn, v in d.items():
        pv = props.get(pn)
        if pv is None: continue
        if pv['kind'] == 'ListProperty' and pv['list_of'].get('kind') == 'embedded' and isinstance(v, list) and v and isinstance(v[0], dict):
            yield (f'embedded object {pn}[0]', 'custom property', put([pn, 0, 'x_inner'], 1))
        if pv['kind'] == 'EmbeddedObjectProperty' and isinstance(v, dict):
            yield (f'embedded object {pn}', 'custom property', put([pn, 'x_inner'], 1))
            yield (f'embedded object {pn}', 'custom property through a nested custom_properties member', put([pn, 'custom_properties'], {'x_inner': 1}))
        if pv['kind'] == 'ListProperty' and pv['list_of'].get('kind') == 'embedded' and isinstance(v, list) and v and isinstance(v[0], dict):
            yield (f'embedded object {pn}[0]', 'custom property through a nested custom_properties member', put([pn, 0, 'custom_properties'], {'x_inner': 1}))
        if pv['kind'] == 'ExtensionsProperty' and isinstance(v, dict):
            for ek in v:
                yield (f'extension {ek}', 'custom property through a nested custom_properties member', put([pn, ek, 'custom_properties'], {'x_ext_custom': 1}))
                for k2, v2 in v[ek].items():
                    if isinstance(v2, dict) and k2 in ('optional_header',): yield (f'extension {ek}.{k2}', 'custom property through a custom_properties member of an embedded object inside the extension', put([pn, ek, k2, 'custom_properties'], {'x_deep': 1}))
        if pv['kind'] == 'HashesProperty' and isinstance(v, dict):
            yield (f'hash dictionary {pn}', 'custom algorithm before a specification one', put([pn], dict([('x-my-hash', 'abc')] + list(v.items()))))
            yield (f'hash dictionary {pn}', 'custom algorithm after a specification one', put([pn], dict(list(v.items()) + [('foo', 'abc')])))
            yield (f'hash dictionary {pn}', 'library-known non-specification algorithm', put([pn], dict([('MD6', 'a' * 32)] + list(v.items()))) if ver == '2.1' else put([pn], dict([('SHA3-999', 'a')] + list(v.items()))))
        if pv['kind'] == 'ReferenceProperty':
            for t in CUSTOM_REF_TYPES: yield (f'reference {pn}', f'reference to {t}', put([pn], t + '--' + G.UUID2))
        if pv['kind'] == 'ListProperty' and pv['list_of'].get('kind') == 'ReferenceProperty' and isinstance(v, list):
            for t in CUSTOM_REF_TYPES[:4]: yield (f'reference list {pn}', f'reference to {t}', put([pn], list(v) + [t + '--' + G.UUID2]))
        if pv['kind'] == 'ExtensionsProperty' and isinstance(v, dict):
            for ek in v: yield (f'extension {ek}', 'custom property inside a predefined extension', put([pn, ek, 'x_ext_custom'], 1))
    if 'extensions' in props:
        ext = dict(d.get('extensions', {}))
        yield ('extensions', 'unregistered extension (x- name)', put(['extensions'], dict(ext, **{'x-unregistered-ext': {'a': 1}})))
        if ver == '2.1':
            yield ('extensions', 'unregistered extension-definition (property-extension)', put(['extensions'], dict(ext, **{'extension-definition--' + G.UUID2: {'extension_type': 'property-extension', 'a': 1}})))
    if cat == 'objects' and d['type'] not in ('bundle',):
        b = {'type': 'bundle', 'id': 'bundle--' + G.UUID, 'objects': [dict(d, x_in_bundle=1)]}
        if ver == '2.0': b['spec_version'] = '2.0'
        yield ('bundle member', 'custom property', b)
        b2 = copy.deepcopy(b); b2['objects'] = [d, {'type': 'x-unregistered', 'id': 'x-unregistered--' + G.UUID2, 'created': G.T1, 'modified': G.T1, **({'spec_version': '2.1'} if ver == '2.1' else {})}]
        yield ('bundle member', 'unregistered object type', b2)
    if cat == 'observables' and ver == '2.0' and not any(k.endswith(('_ref', '_refs')) for k in d):
        od = {'type': 'observed-data', 'id': 'observed-data--' + G.UUID, 'created': G.T1, 'modified': G.T1, 'first_observed': G.T1, 'last_observed': G.T1, 'number_observed': 1}
        yield ('observed-data member', 'custom property', dict(od, objects={'0': dict(d, x_member=1)}))
        yield ('observed-data member', 'unregistered observable type', dict(od, objects={'0': d, '1': {'type': 'x-unregistered-observable', 'v': 1}}))


def run(chk):
    import stix2
    chk.registry = REG
    chk.explanation = ('P: the customisation protocol of the cleaners: ListProperty.clean (has_custom <=> some element custom, both element kinds; callee receives this '
                       'call\'s allow_custom), HashesProperty.clean (flag is the OR over entries: prefix invariant; strict => no custom entry gets through), '
                       'ReferenceProperty.clean (flag formula; strict => not custom), ExtensionsProperty.clean (flag is the OR over entries, ready-made extension objects included; '
                       'strict => no custom entry; constructor receives this call\'s allow_custom), dict_to_stix2 (unknown type and not allow_custom => ParseError unless the documented '
                       'extension-definition escape; constructor receives this call\'s allow_custom).  B: every valid object (minimal and all-optional form) x '
                       'injection site (top level, each embedded object, each extension, hash dictionaries in both entry orders, each reference, bundle member, '
                       'observed-data member) x custom kind: strict constructors/parse refuse; with customisation allowed has_custom <=> a strict re-parse of the '
                       'serialization is refused; unregistered top-level types (with every kind of extension entry) and custom content in 6 input forms through parse, '
                       'Environment.parse, Bundle, MemoryStore / MemorySink / FileSystemStore created with allow_custom=False.  The accumulation loop of _STIXBase.__init__ is bounded only.')
    chk.assume('the documented custom_properties keyword is a known finding (admits custom properties in strict mode)')
    for c in (K.list_clean_contract(), K.hashes_clean_contract(), K.reference_clean_contract(), K.extensions_clean_contract(), K.observable_clean_contract(), KP.dict_to_stix2_contract(), KP.init_prefix_contract()):
        chk.prove(c); chk.canary(c)
    tabs = {v: T.frozen(v) for v in ('2.0', '2.1')}

    def nested_corpus():
        """objects with directly embedded objects and predefined extensions (places the table-driven generator does not populate)"""
        for ver in ('2.0', '2.1'):
            sv = {'spec_version': '2.1'} if ver == '2.1' else {}
            def oid(t): return {'id': t + '--' + G.UUID} if ver == '2.1' else {}
            yield (ver, f'{ver}:observables:x509-certificate:with v3 extensions', 'observables', dict({'type': 'x509-certificate', 'serial_number': '1', 'x509_v3_extensions': {'basic_constraints': 'c', 'key_usage': 'k'}}, **sv, **oid('x509-certificate')))
            yield (ver, f'{ver}:observables:file:with pe binary extension', 'observables', dict({'type': 'file', 'name': 'f', 'extensions': {'windows-pebinary-ext': {'pe_type': 'exe', 'optional_header': {'magic_hex': '010b', 'size_of_code': 1},
                                                                                                                          'sections': [{'name': 's', 'size': 1}]}}}, **sv, **oid('file')))
            yield (ver, f'{ver}:observables:file:with ntfs extension', 'observables', dict({'type': 'file', 'name': 'f', 'extensions': {'ntfs-ext': {'sid': 's', 'alternate_data_streams': [{'name': 'n', 'size': 1}]}}}, **sv, **oid('file')))
            yield (ver, f'{ver}:observables:process:with windows process extension', 'observables', dict({'type': 'process', 'pid': 1, 'extensions': {'windows-process-ext': {'aslr_enabled': True, 'startup_info': {'abc': 'b'}}}}, **sv, **oid('process')))

    def cases():
        for ver in ('2.0', '2.1'):
            for label, cat, cls, kw, o, d in O.corpus(ver, alts=(0,), only=lambda l: l.endswith((':minimal', ':all-optional'))):
                for site, kind, inj in injections(d, ver, cat, tabs[ver]):
                    yield (ver, label, cat, site, kind, inj)
        for ver, label, cat, d in nested_corpus():
            try: parse(copy.deepcopy(d), cat, ver, False)
            except Exception as ex:
                chk.faults.append(f'nested corpus object {label} is not accepted: {type(ex).__name__}: {str(ex)[:120]}'); continue
            for site, kind, inj in injections(d, ver, cat, tabs[ver]): yield (ver, label, cat, site, kind, inj)

    def parse(x, cat, ver, ac):
        return O.strict_parse(x, cat if x.get('type') not in ('bundle', 'observed-data') else 'objects', ver, allow_custom=ac)

    def check(case):
        ver, label, cat, site, kind, inj = case
        tag = f'{site.split(" ")[0]} {site.split(" ")[1] if " " in site else ""}:{kind}'
        sanctioned = 'extension-definition' in kind      # STIX 2.1 extension definitions are the specification's own (non-custom) mechanism: the library
        try:                                              # deliberately assumes an unregistered one carries no customisation; only the flag equivalence is checked
            o = parse(inj, cat, ver, False)
            if not sanctioned: return (f'strict#{tag}', f'{label}: {kind} at {site} accepted with customisation disallowed; emitted {o.serialize()[:200]}', {'input': inj})
        except Exception as ex:
            if not O.family(ex): return (f'escape#{type(ex).__name__}', f'{label}: {kind} at {site}: {type(ex).__name__}: {ex}', {'input': inj})
        try:
            o = parse(inj, cat, ver, True)
        except Exception as ex:
            return None       # refused even when allowed (e.g. a reference type the property can never hold): nothing to flag
        if isinstance(o, dict): return None
        text = o.serialize()
        try:
            parse(json.loads(text), cat, ver, False); strict_ok = True
        except Exception:
            strict_ok = False
        if o.has_custom == strict_ok:
            return (f'flag#{tag}', f'{label}: {kind} at {site}: has_custom={o.has_custom} but a strict re-parse of the serialization ' + ('succeeds' if strict_ok else 'is refused'), {'input': inj, 'serialization': text[:300]})
    cc = list(cases())
    if chk.tier == 'quick' and len(cc) > 9000:
        pinned = [c for c in cc if ':with ' in c[1]]; rest = [c for c in cc if ':with ' not in c[1]]
        chk.rng.shuffle(rest); cc = pinned + rest[:9000]
    chk.bounded('custom content injection: strict refusal and flag <=> strict re-parse refused', cc, check, classify=lambda c: (c[1].split(':')[2], c[3].split(' ')[0], c[4]),
                bound='every parseable type (minimal + all-optional) x injection sites x custom kinds x both switch settings' + (' (9000-case subset)' if chk.tier == 'quick' else ''), stop_after=100)

    # ---- unregistered top-level types and the strict stores
    import tempfile, shutil
    from stix2 import MemoryStore, MemorySink, FileSystemStore, Environment
    U2 = G.UUID2
    def unreg(ext=None, ver='2.1'):
        d = {'type': 'x-vf-never-registered', 'id': 'x-vf-never-registered--' + G.UUID, 'created': G.T1, 'modified': G.T1, 'x_v': 1}
        if ver == '2.1': d['spec_version'] = '2.1'
        if ext is not None: d['extensions'] = ext
        return d
    EXT = 'extension-definition--' + U2
    top_unregistered = [('no extensions', unreg(), False), ('no extensions (2.0)', unreg(ver='2.0'), False), ('x- extension', unreg({'x-some-ext': {'a': 1}}), False),
                        ('property-extension definition', unreg({EXT: {'extension_type': 'property-extension', 'a': 1}}), False),
                        ('toplevel-property-extension definition', unreg({EXT: {'extension_type': 'toplevel-property-extension'}, }), False),
                        ('new-sdo definition', unreg({EXT: {'extension_type': 'new-sdo'}}), True), ('new-sco definition', unreg({EXT: {'extension_type': 'new-sco'}}), True),
                        ('new-sro definition', unreg({EXT: {'extension_type': 'new-sro'}}), True),
                        ('extension key that is not an extension-definition id', unreg({'x-ext-new-sdo': {'extension_type': 'new-sdo'}}), False),
                        ('extension value that is not a dictionary', unreg({EXT: 'new-sdo'}), False)]
    ident = {'type': 'identity', 'spec_version': '2.1', 'id': 'identity--' + G.UUID, 'created': G.T1, 'modified': G.T1, 'name': 'n'}
    fil = {'type': 'file', 'spec_version': '2.1', 'id': 'file--' + G.UUID, 'name': 'f', 'hashes': {'MD5': 'a' * 32}}
    store_inputs = [(f'unregistered type, {n}', d, ok) for n, d, ok in top_unregistered] + [
        ('custom property', dict(ident, x_custom=1), False), ('custom property (no prefix)', dict(ident, foo_custom=1), False),
        ('non-specification hash algorithm', dict(fil, hashes={'MD5': 'a' * 32, 'x-my-hash': 'abc'}), False), ('unregistered extension', dict(fil, extensions={'x-unregistered-ext': {'a': 1}}), False),
        ('reference to a custom type', dict(ident, created_by_ref='x-custom-thing--' + U2), False), ('embedded custom property', dict(ident, external_references=[{'source_name': 's', 'x_inner': 1}]), False)]
    tmpd = tempfile.mkdtemp(prefix='vf-c04-')
    FORMS = {'dict': lambda d: d, 'list': lambda d: [d], 'bundle dict': lambda d: {'type': 'bundle', 'id': 'bundle--' + G.UUID, 'objects': [d]},
             'list of bundle dicts': lambda d: [{'type': 'bundle', 'id': 'bundle--' + G.UUID, 'objects': [ident, d]}], 'JSON text': lambda d: json.dumps(d),
             'bundle JSON text': lambda d: json.dumps({'type': 'bundle', 'id': 'bundle--' + G.UUID, 'objects': [d]})}

    # reading what a permissive producer left behind: the strictness of the READER decides (explicit allow_custom=False, positional and by keyword)
    READ_ROUTES = ('FileSystemStore(allow_custom=False).get', 'FileSystemStore(allow_custom=False).query', 'FileSystemStore(allow_custom=False).all_versions', 'FileSystemSource(allow_custom=False).get',
                   'FileSystemStore(dir, False).get', 'MemoryStore(allow_custom=False).load_from_file', 'MemorySource(allow_custom=False).load_from_file')

    def store_cases():
        for name, d, sanctioned in store_inputs:
            for form in FORMS:
                for route in ('parse', 'Environment.parse', 'MemoryStore.add', 'MemoryStore(stix_data)', 'MemorySink.add', 'FileSystemStore.add', 'Bundle(objects=)') + READ_ROUTES:
                    if route in READ_ROUTES and form != 'dict': continue
                    if route in ('parse', 'Environment.parse', 'Bundle(objects=)') and form in ('list', 'list of bundle dicts'): continue
                    if route == 'Bundle(objects=)' and form != 'dict': continue
                    yield (name, form, route, d, sanctioned)

    def held(st, d):
        try: return st.get(d['id']) is not None
        except Exception: return False

    def check_store(case):
        name, form, route, d, sanctioned = case
        x = FORMS[form](copy.deepcopy(d)); got = None
        try:
            if route == 'parse': got = stix2.parse(x, allow_custom=False)
            elif route == 'Environment.parse': got = Environment(store=MemoryStore()).parse(x, allow_custom=False)
            elif route == 'Bundle(objects=)': got = stix2.v21.Bundle(objects=[x], allow_custom=False)
            elif route == 'MemoryStore.add':
                st = MemoryStore(allow_custom=False); st.add(x); got = held(st, d)
            elif route == 'MemoryStore(stix_data)':
                st = MemoryStore(stix_data=x, allow_custom=False); got = held(st, d)
            elif route == 'MemorySink.add':
                sk = MemorySink(allow_custom=False); sk.add(x); got = d['id'] in sk._data
            elif route == 'FileSystemStore.add':
                root = tempfile.mkdtemp(dir=tmpd); st = FileSystemStore(root, allow_custom=False); st.add(x)
                got = any(fn.endswith('.json') for _, _, fns in __import__('os').walk(root) for fn in fns)
            elif route in READ_ROUTES:
                import os as _os2
                root = tempfile.mkdtemp(dir=tmpd)
                try:
                    stix2.FileSystemSink(root, allow_custom=True).add(copy.deepcopy(d))
                    bpath = _os2.path.join(root, 'all.json'); open(bpath, 'w').write(json.dumps({'type': 'bundle', 'id': 'bundle--' + G.UUID, 'objects': [d]}))
                except Exception: return None
                # (history: a permissive reader of this process looked at the same files first -- the strictness of a read is the reader's, not the first reader's)
                try:
                    pr = stix2.FileSystemSource(root, allow_custom=True); pr.get(d['id']); pr.query([stix2.Filter('id', '=', d['id'])]); pr.all_versions(d['id'])
                except Exception: pass
                if route.startswith('FileSystemStore(dir, False)'): rd = FileSystemStore(root, False)
                elif route.startswith('FileSystemStore'): rd = FileSystemStore(root, allow_custom=False)
                elif route.startswith('FileSystemSource'): rd = stix2.FileSystemSource(root, allow_custom=False)
                elif route.startswith('MemoryStore'): rd = MemoryStore(allow_custom=False); rd.load_from_file(bpath)
                else: rd = stix2.MemorySource(allow_custom=False); rd.load_from_file(bpath)
                if route.endswith('.query'): r = rd.query([stix2.Filter('id', '=', d['id'])]); got = r[0] if r else False
                elif route.endswith('.all_versions'): r = rd.all_versions(d['id']); got = r[0] if r else False
                else:
                    r = rd.get(d['id']); got = r if r is not None else False
        except Exception as ex:
            if not O.family(ex) and type(ex).__name__ not in ('DataSourceError',): return (f'escape#{type(ex).__name__}', f'{name} as {form} through {route}: {type(ex).__name__}: {ex}', {'input': d})
            return None
        if got is False or sanctioned: return None
        if 'bundle' in form and route in ('parse', 'Environment.parse') and not isinstance(got, dict):
            inner = got.get('objects', [None])[-1] if hasattr(got, 'get') else None
            if inner is None: return None
        return (f'strict#{route}:{name}', f'{name} given as {form} through {route} with customisation disallowed was admitted ({str(got)[:120]})', {'input': d, 'form': form, 'route': route})
    try:
        chk.bounded('strict entry points: unregistered top-level types and custom content through parse / Environment / memory and filesystem stores', list(store_cases()), check_store,
                    classify=lambda c: c[:3], bound=f'{len(store_inputs)} inputs (10 shapes of unregistered type incl. every extension_type, 6 kinds of custom content) x 6 input forms x 7 strict entry points, and 7 strict readers of what a permissive sink wrote')
    finally:
        shutil.rmtree(tmpd, ignore_errors=True)

    # ---- custom content inside nested values that are handed over as ready-made library objects (built with customisation allowed), and content whose member names coincide with switches
    def nested_object_cases():
        V = stix2.v21; V0 = stix2.v20
        er = lambda m: m.ExternalReference(allow_custom=True, source_name='s', x_inner=1)
        er_hash = lambda m: m.ExternalReference(allow_custom=True, source_name='s', url='http://x', hashes={'x-my-hash': 'abc'})
        # list-valued properties handed ONE bare value instead of a list (the documented shorthand): the same content, the same answer
        yield ('bare embedded object (ExternalReference) with a custom property instead of a list', lambda ac: V.Identity(allow_custom=ac, name='n', external_references=er(V)))
        yield ('bare embedded object (2.0) with a custom property instead of a list', lambda ac: V0.Identity(allow_custom=ac, name='n', identity_class='individual', external_references=er(V0)))
        yield ('bare kill chain phase object with a custom property instead of a list', lambda ac: V.Malware(allow_custom=ac, name='m', is_family=False, kill_chain_phases=V.KillChainPhase(allow_custom=True, kill_chain_name='k', phase_name='p', x_inner=1)))
        yield ('bare reference to a custom type instead of a list', lambda ac: V.Report(allow_custom=ac, name='r', published='2020-01-01T00:00:00Z', report_types=['threat-report'], object_refs='x-vf-custom-type--' + G.UUID))
        yield ('bare reference to a custom type instead of a list (2.0)', lambda ac: V0.Report(allow_custom=ac, name='r', published='2020-01-01T00:00:00Z', labels=['threat-report'], object_refs='x-vf-custom-type--' + G.UUID))
        yield ('bundle given one customized object instead of a list', lambda ac: V.Bundle(objects=V.Identity(allow_custom=True, name='n', x_inner=1), allow_custom=ac))
        yield ('bare label list member: object_marking_refs to a custom type as one string', lambda ac: V.Identity(allow_custom=ac, name='n', object_marking_refs='x-vf-custom-marking--' + G.UUID))
        yield ('embedded object (ExternalReference) with a custom property', lambda ac: V.Identity(allow_custom=ac, name='n', external_references=[er(V)]))
        yield ('embedded object (ExternalReference, 2.0) with a custom property', lambda ac: V0.Identity(allow_custom=ac, name='n', identity_class='individual', external_references=[er(V0)]))
        yield ('embedded object with a non-specification hash algorithm', lambda ac: V.Identity(allow_custom=ac, name='n', external_references=[er_hash(V)]))
        yield ('kill chain phase object with a custom property', lambda ac: V.Malware(allow_custom=ac, name='m', is_family=False, kill_chain_phases=[V.KillChainPhase(allow_custom=True, kill_chain_name='k', phase_name='p', x_inner=1)]))
        yield ('registered extension object with a custom property', lambda ac: V.File(allow_custom=ac, name='f', extensions={'ntfs-ext': V.NTFSExt(allow_custom=True, sid='s', x_inner=1)}))
        yield ('registered extension object (2.0) with a custom property', lambda ac: V0.File(allow_custom=ac, name='f', extensions={'ntfs-ext': V0.NTFSExt(allow_custom=True, sid='s', x_inner=1)}))
        yield ('registered extension object holding a stream with a non-specification hash', lambda ac: V.File(allow_custom=ac, name='f', extensions={'ntfs-ext': V.NTFSExt(allow_custom=True, alternate_data_streams=[V.AlternateDataStream(allow_custom=True, name='n', hashes={'foo': 'abc'})])}))
        yield ('bundle member object with a custom property', lambda ac: V.Bundle(V.Identity(allow_custom=True, name='n', x_custom=1), allow_custom=ac))
        yield ('bundle member object (2.0) with a custom property', lambda ac: V0.Bundle(V0.Identity(allow_custom=True, name='n', identity_class='individual', x_custom=1), allow_custom=ac))
        yield ('observed-data member object (2.0) with a custom property', lambda ac: V0.ObservedData(allow_custom=ac, first_observed=G.T1, last_observed=G.T1, number_observed=1, objects={'0': V0.File(allow_custom=True, name='f', x_member=1)}))
        yield ('granular marking object with a custom property', lambda ac: V.Identity(allow_custom=ac, name='n', granular_markings=[V.GranularMarking(allow_custom=True, marking_ref='marking-definition--613f2e26-407d-48c7-9eca-b8e91df99dc9', selectors=['name'], x_inner=1)]))
        yield ('parse of an object holding a custom extension object', lambda ac: stix2.parse(V.File(allow_custom=True, name='f', extensions={'ntfs-ext': V.NTFSExt(allow_custom=True, sid='s', x_inner=1)}), allow_custom=ac))
        for sw in ('allow_custom', 'interoperability', '_valid_refs', 'version'):
            d = {'type': 'identity', 'spec_version': '2.1', 'id': 'identity--' + G.UUID, 'created': G.T1, 'modified': G.T1, 'name': 'n', 'x_custom': 1, sw: True}
            yield (f'member named {sw} next to a custom property', lambda ac, d=d: stix2.parse(copy.deepcopy(d), allow_custom=ac))
            b = {'type': 'bundle', 'id': 'bundle--' + G.UUID, sw: True, 'objects': [{k: v for k, v in d.items() if k != sw}]}
            yield (f'bundle member named {sw}, custom property in a member', lambda ac, b=b: stix2.parse(copy.deepcopy(b), allow_custom=ac))
            f = {'type': 'file', 'spec_version': '2.1', 'id': 'file--' + G.UUID, 'name': 'f', 'hashes': {'x-my-hash': 'abc'}, sw: True}
            yield (f'observable member named {sw} next to a non-specification hash', lambda ac, f=f: stix2.parse_observable(copy.deepcopy(f), allow_custom=ac, version='2.1'))

    def check_nested(case):
        name, build = case
        try:
            o = build(False)
            return (f'strict#nested object:{name}', f'{name}: accepted with customisation disallowed; emitted {o.serialize()[:200] if hasattr(o, "serialize") else str(o)[:200]}', {})
        except Exception as ex:
            if not O.family(ex): return (f'escape#{type(ex).__name__}', f'{name}: {type(ex).__name__}: {ex}', {})
        if name.startswith(('member named', 'bundle member named', 'observable member named')): return None
        try: o = build(True)
        except Exception: return None
        if isinstance(o, dict) or not hasattr(o, 'has_custom'): return None
        text = o.serialize()
        try: stix2.parse(json.loads(text), allow_custom=False); strict_ok = True
        except Exception: strict_ok = False
        if o.has_custom == strict_ok: return (f'flag#nested object:{name}', f'{name}: has_custom={o.has_custom} but a strict re-parse of the serialization ' + ('succeeds' if strict_ok else 'is refused'), {'serialization': text[:300]})
    chk.bounded('custom content inside ready-made nested objects; member names that coincide with switches', list(nested_object_cases()), check_nested, classify=lambda c: c[0],
                bound='12 kinds of nested library objects built with customisation allowed (embedded objects, extensions, bundle and observed-data members, both versions) + 4 switch names x 3 containers')

    # objects without any custom content: flag false and strict re-parse accepted
    def clean_cases():
        for ver in ('2.0', '2.1'):
            for label, cat, cls, kw, o, d in O.corpus(ver, alts=(0,), only=lambda l: l.endswith((':minimal', ':all-optional'))):
                yield (ver, label, cat, d)

    def check_clean(case):
        ver, label, cat, d = case
        o = parse(d, cat, ver, True)
        if o.has_custom: return ('flag#no custom content', f'{label}: has_custom is True for an object without custom content', {'input': d})
    chk.bounded('no custom content => flag false', list(clean_cases()), check_clean, classify=lambda c: c[1], bound='every parseable type, minimal + all-optional')
    # known finding: custom_properties keyword
    ident = {'type': 'identity', 'spec_version': '2.1', 'id': 'identity--' + G.UUID, 'created': G.T1, 'modified': G.T1, 'name': 'n', 'custom_properties': {'x_a': 1}}
    try:
        o = stix2.parse(ident, allow_custom=False)
        if 'x_a' in json.loads(o.serialize()):
            chk.violation('custom_properties#keyword admits custom properties in strict mode', 'parse({..., "custom_properties": {"x_a": 1}}, allow_custom=False) emits x_a', {'input': ident})
    except Exception:
        pass
