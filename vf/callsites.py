"""Call-site obligations over the whole tree (C14): every call in the library to a function that has a role-carrying
formal parameter (version / allow_custom / interoperability) is bound to the callee's REAL signature (re-read from
source) and checked against the callee's parameter sorts; a caller that itself received a `version` must hand it on.
Sorts form a small finite lattice, so the obligations are finite-domain and discharged by z3 like the others."""
import ast, os
import z3
from .pyvc import engine as E
from .pyvc.lib import bind_actuals
from .pyvc.contract import Obligation, discharge

ROLE_SORT = {'version': 'optver', 'allow_custom': 'bool', 'interoperability': 'bool'}
SORTS = ['bool', 'optver', 'none', 'str', 'unknown']
SortS, _sc = z3.EnumSort('ArgSort', SORTS)
SC = dict(zip(SORTS, _sc))
fits = z3.Function('fits', SortS, SortS, z3.BoolSort())
FITS_AXIOMS = [fits(SC[a], SC[f]) == z3.BoolVal((a == f) or (a == 'none' and f == 'optver') or (a == 'str' and f == 'optver'))
               for a in SORTS for f in ('bool', 'optver')]


CALLEE_FILES = ('stix2/parsing.py', 'stix2/datastore/memory.py', 'stix2/datastore/filesystem.py', 'stix2/datastore/taxii.py',
                'stix2/datastore/__init__.py', 'stix2/environment.py')


def scan_defs(src_root, pkg='stix2'):
    """all function/method defs outside tests: name -> [(relpath, qualname, FunctionDef, is_method)]"""
    defs = {}
    for dp, dn, fn in os.walk(os.path.join(src_root, pkg)):
        dn[:] = [d for d in dn if d not in ('test', '__pycache__')]
        for f in fn:
            if not f.endswith('.py'): continue
            path = os.path.join(dp, f); rel = os.path.relpath(path, src_root)
            try: tree = ast.parse(open(path).read())
            except SyntaxError: continue

            def visit(node, prefix, in_class):
                for n in node.body:
                    if isinstance(n, ast.FunctionDef):
                        defs.setdefault(n.name, []).append((rel, prefix + n.name, n, in_class))
                        visit(n, prefix + n.name + '.', False)
                    elif isinstance(n, ast.ClassDef):
                        init = next((m for m in n.body if isinstance(m, ast.FunctionDef) and m.name == '__init__'), None)
                        if init is not None: defs.setdefault(n.name, []).append((rel, n.name + '.__init__', init, True))
                        visit(n, prefix + n.name + '.', True)
            visit(tree, '', False)
    return defs


def role_formals(fn):
    sig, va, kw = E.real_signature(fn)
    return [name for name, _, _ in sig if name in ROLE_SORT]


def actual_sort(node, caller_params):
    """sort of an actual argument expression, from the caller's own contract (its role-named parameters), literals and self.<role>"""
    if isinstance(node, tuple) and node[0] == 'default':
        node = node[1]
    if isinstance(node, ast.Constant):
        if node.value is None: return 'none'
        if isinstance(node.value, bool): return 'bool'
        if isinstance(node.value, str): return 'str'
        return 'unknown'
    if isinstance(node, ast.Name) and node.id in caller_params and node.id in ROLE_SORT: return ROLE_SORT[node.id]
    if isinstance(node, ast.Attribute) and isinstance(node.value, ast.Name) and node.value.id == 'self' and node.attr in ROLE_SORT: return ROLE_SORT[node.attr]
    return 'unknown'


def check_tree(src_root, exclude=('stix2/workbench.py',)):
    """returns (obligations, notes): one obligation per (call site, role formal) + one forwarding obligation per (call site with a version-carrying caller)"""
    defs = scan_defs(src_root)
    targets = {name: [d for d in lst if role_formals(d[2]) and d[0] in CALLEE_FILES] for name, lst in defs.items()}
    targets = {k: v for k, v in targets.items() if v}
    obs = []; notes = []; sites = 0
    for name, lst in defs.items():
        for rel, qual, fn, is_method in lst:
            if rel in exclude: continue
            sig, va, kw = E.real_signature(fn)
            caller_params = {n for n, _, _ in sig}
            for call in [n for n in ast.walk(fn) if isinstance(n, ast.Call)]:
                if isinstance(call.func, ast.Name): cname, via_attr = call.func.id, False
                elif isinstance(call.func, ast.Attribute): cname, via_attr = call.func.attr, True
                else: continue
                if cname not in targets or cname == '__init__': continue
                if via_attr and isinstance(call.func.value, ast.Call) and ast.unparse(call.func.value.func) == 'super':
                    pass
                if any(isinstance(a, ast.Starred) for a in call.args):
                    notes.append(f'{rel}:{call.lineno} {qual} -> {cname}: starred positional arguments, not decided'); continue
                if via_attr:
                    # only self.<method>(...) is resolved, to the method of the caller's own class (dict.get / set.add etc. are not library calls)
                    if not (isinstance(call.func.value, ast.Name) and call.func.value.id == 'self' and '.' in qual): continue
                    cls = qual.rsplit('.', 1)[0]
                    cands = [d for d in targets[cname] if d[3] and d[1] == f'{cls}.{cname}' and d[0] == rel]
                else:
                    cands = [d for d in targets[cname] if not d[3] or d[1].endswith('.__init__')]
                if not cands: continue
                sites += 1
                star_kw = any(k.arg is None for k in call.keywords)
                for crel, cqual, cfn, cmeth in cands:
                    csig = E.real_signature(cfn)
                    skip_self = cmeth and (via_attr or cqual.endswith('.__init__'))
                    keywords = [k for k in call.keywords if k.arg is not None]
                    fake = ast.Call(func=call.func, args=call.args, keywords=keywords)
                    bound, errors = bind_actuals(csig, fake, list(call.args) + [k.value for k in keywords], skip_self)
                    errors = [e for e in errors if not (star_kw and e.startswith('missing'))]
                    site = f'{rel}:{call.lineno} {qual} -> {cqual}'
                    if errors and len(cands) > 1:
                        continue       # another class's method of the same name; this candidate does not accept the call shape
                    for err in errors:
                        obs.append(Obligation('callsites', f'{site}: binds to the real signature ({err})', 'call-requires', list(FITS_AXIOMS), z3.BoolVal(False), True))
                    for formal in role_formals(cfn):
                        if formal not in bound:
                            continue
                        a = bound[formal]
                        s_act = actual_sort(a, caller_params)
                        src = ast.unparse(a[1]) if isinstance(a, tuple) else ast.unparse(a)
                        clause = f'{site}: formal {formal}: {ROLE_SORT[formal]} receives `{src}` : {s_act}'
                        if s_act == 'unknown':
                            notes.append(clause + ' -- sort of the actual not derivable, not decided'); continue
                        obs.append(Obligation('callsites', clause, 'call-requires', list(FITS_AXIOMS), fits(SC[s_act], SC[ROLE_SORT[formal]]), True))
                        # forwarding: a caller that was given a version (or allow_custom) must hand on its own one
                        if formal in ('version', 'allow_custom') and (formal in caller_params):
                            fwd = isinstance(a, ast.Name) and a.id == formal
                            obs.append(Obligation('callsites', f'{site}: the caller\'s own `{formal}` is forwarded to formal {formal} (got `{src}`)', 'call-requires', [], z3.BoolVal(bool(fwd)), True))
                        elif formal == 'allow_custom' and 'self' in caller_params and not isinstance(a, tuple) and qual.split('.')[-1] != '__init__':
                            pass
    for ob in obs: discharge(ob, None, use_external=False)
    return obs, notes, sites


# ------------------------------------------------------------------ frame condition: validators read no mutable module state
MUTABLE_CTORS = {'set', 'dict', 'list', 'collections.defaultdict', 'defaultdict', 'collections.OrderedDict', 'OrderedDict', 'collections.Counter', 'WeakValueDictionary',
                 'weakref.WeakValueDictionary', 'functools.lru_cache', 'lru_cache', 'functools.cache', 'cache'}


def purity_obligations(src_root, functions, allow=()):
    """For each 'relpath::qualname': the function's result depends only on its arguments -- it reads/writes no module-level
    mutable container, declares no `global`, and is not wrapped in a memoising decorator.  Returns [Obligation]."""
    out = []
    for target in functions:
        rel, qual = target.split('::')
        try:
            tree = ast.parse(open(os.path.join(src_root, rel)).read())
            fn = E.find_def(tree, qual)
        except Exception as ex:
            ob = Obligation('frame', f'{target}: function found', 'frame', [], z3.BoolVal(True), True); ob.result = 'undecided'; ob.detail = str(ex); out.append(ob); continue
        mutable = {}
        for n in tree.body:
            if isinstance(n, (ast.Assign, ast.AnnAssign)):
                tgts = n.targets if isinstance(n, ast.Assign) else [n.target]
                v = n.value
                if v is None: continue
                is_mut = isinstance(v, (ast.Dict, ast.List, ast.Set, ast.DictComp, ast.ListComp, ast.SetComp)) or (isinstance(v, ast.Call) and ast.unparse(v.func) in MUTABLE_CTORS)
                for t in tgts:
                    if isinstance(t, ast.Name) and is_mut: mutable[t.id] = ast.unparse(v)[:40]
        local = {a.arg for a in fn.args.args + fn.args.kwonlyargs} | {n.id for n in ast.walk(fn) if isinstance(n, ast.Name) and isinstance(n.ctx, ast.Store)}
        reads = sorted({n.id for n in ast.walk(fn) if isinstance(n, ast.Name) and isinstance(n.ctx, ast.Load) and n.id in mutable and n.id not in local and n.id not in allow})
        globs = [g for n in ast.walk(fn) if isinstance(n, (ast.Global, ast.Nonlocal)) for g in n.names]
        decos = [ast.unparse(d) for d in fn.decorator_list if ast.unparse(d).split('(')[0] in MUTABLE_CTORS]
        ok = not reads and not globs and not decos
        why = '; '.join(filter(None, [f'reads module-level mutable {reads}' if reads else '', f'declares global {globs}' if globs else '', f'memoising decorator {decos}' if decos else '']))
        ob = Obligation('frame', f'{target}: result depends only on the arguments (no module-level mutable state, no global, no memoisation)' + (f' -- {why}' if why else ''),
                        'frame', [], z3.BoolVal(ok), True)
        discharge(ob, None, use_external=False); out.append(ob)
    return out
