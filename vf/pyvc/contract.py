"""Contracts (sidecar specifications of real functions) and the per-function verifier."""
import ast, hashlib, json, os, subprocess, tempfile, time
import z3
from . import engine as E
from .engine import Val, Exc, Unsupported, NONE

Z3_TIMEOUT_MS = 20000
CVC5_TIMEOUT_S = 30


class Registry:
    """Models of builtins / methods / assumed externals, dispatched on the receiver's sort."""

    def __init__(self):
        self.funcs = {}        # 'name' or 'mod.name' -> handler(x, call_ast, path, site)
        self.methods = {}      # ('.name', sort) -> handler(x, recv, args, call_ast, path, site)
        self.attrs = {}        # (sort, attr) -> handler(x, obj, path, site)
        self.compare = {}      # (sortA, sortB) -> handler(x, op, a, b, path, site)
        self.contains = {}     # (container sort, item sort)
        self.subscript = {}    # (sort, key sort)
        self.slices = {}       # sort -> handler(x, obj, slice_ast, path, site)
        self.binops = {}       # (sortA, opname, sortB)
        self.iterables = {}    # sort -> handler
        self.comprehension = None

    def copy(self):
        r = Registry()
        for k, v in vars(self).items():
            setattr(r, k, dict(v) if isinstance(v, dict) else v)
        return r


class Contract:
    """
    target    'stix2/versioning.py::_fudge_modified' (path relative to the source root :: qualified name)
    params    name -> sort ('int', 'str', 'bool', 'dt', 'J', 'opt:int', 'enum:X', ...) | Val | callable(name)->Val
    requires  [(name, fn(params)->z3 Bool)]
    ensures   [(name, fn(params, result)->z3 Bool)]                 on every normally returning path
    raises    {ExcName: fn(params)->z3 Bool | None}                 exceptional postcondition; with a condition it is
              an *iff*: raised only when the condition holds, and no normal return when it holds.  Exceptions not
              listed must not escape.
    loops     {ordinal: {'kind':'inv', 'inv': fn(x, env, i, it)->z3 Bool}}
    handlers  callee contracts / local models: 'name' -> handler
    """

    def __init__(self, target, params=None, requires=(), ensures=(), raises=None, loops=None, handlers=None, globals=None,
                 local_sorts=None, props=(), assumptions=(), note='', cut=None, max_paths=4000, replay=None,
                 on_outcomes=None, comprehensions=None, ghost_init=None, store_handler=None, truthy_handlers=None,
                 raise_order_free=False, havoc=None, registry_ext=None, expr_hooks=None, ignore_unknown_exceptions=False, merge_set_branches=False):
        self.target = target
        self.prune_quantifier_free = False     # engine: feasibility pruning over the quantifier-free facts only (faster on contracts with quantified invariants)
        self.merge_set_branches = merge_set_branches      # engine: merge the two outcomes of a conditional that differ only in set-valued locals
        self.params = dict(params or {})
        self.requires = list(requires)
        self.ensures = list(ensures)
        self.raises = dict(raises or {})
        self.loops = dict(loops or {})
        self.handlers = dict(handlers or {})
        self.globals = dict(globals or {})
        self.local_sorts = dict(local_sorts or {})
        self.props = tuple(props)
        self.assumptions = list(assumptions)
        self.note = note
        self.cut = cut
        self.max_paths = max_paths
        self.replay = replay            # Replay(...) or None
        self.on_outcomes = on_outcomes  # fn(x, outs, add_obligation): extra obligations (ghost state, loops, yields)
        self.comprehensions = dict(comprehensions or {})
        self.ghost_init = dict(ghost_init or {})
        self.store_handler = store_handler
        self.truthy_handlers = dict(truthy_handlers or {})
        self.havoc = havoc
        self.registry_ext = dict(registry_ext or {})
        self.expr_hooks = dict(expr_hooks or {})
        self.ignore_unknown_exceptions = ignore_unknown_exceptions

    @property
    def name(self):
        return self.target.replace('stix2/', '').replace('.py::', '.').replace('/', '.')

    def lift_local(self, sort, v):
        lf = getattr(self, 'lifters', None)
        if lf and sort in lf: return lf[sort](v)
        if sort == 'set' and v.sort == 'litdict' and not v.x: return Val('set', E.EMPTY)       # a dict used only through its key set
        if sort.startswith('opt:') and not v.sort.startswith('opt:'):
            inner = sort[4:]
            if v.sort == 'none':
                try: dead = E.named(inner, 'dead')
                except NotImplementedError: dead = Val(inner, x={})
                return Val(sort, (z3.BoolVal(True), dead))
            if v.sort == inner: return Val(sort, (z3.BoolVal(False), v))
        return v

    def havoc_local(self, name, v):
        if self.havoc and name in self.havoc: return self.havoc[name](v)
        if v.sort == 'rec':
            return Val('rec', x={k: self.havoc_local(name + '.' + k, f) for k, f in v.x.items()})
        if v.sort in ('func', 'const', 'none', 'excobj', 'tuple', 'litlist', 'litdict', 'map', 'seq'):
            return Val('opaque', x=name + "'")
        try: return E.fresh(v.sort, name)
        except NotImplementedError: return v       # values of contract-declared abstract sorts are immutable tokens


class Obligation:
    __slots__ = ('fn', 'clause', 'kind', 'pc', 'claim', 'exact', 'result', 'backend', 'ms', 'model', 'detail', 'path', 'z3model')

    def __init__(s, fn, clause, kind, pc, claim, exact, path=None):
        s.fn, s.clause, s.kind, s.pc, s.claim, s.exact, s.path = fn, clause, kind, pc, claim, exact, path
        s.result = None; s.backend = None; s.ms = 0.0; s.model = None; s.detail = ''; s.z3model = None

    @property
    def name(s):
        return f'{s.fn}#{s.clause}' + (f'@path{s.path}' if s.path is not None else '')

    def record(s):
        return {'obligation': s.name, 'kind': s.kind, 'result': s.result, 'backend': s.backend, 'ms': round(s.ms, 2),
                **({'model': s.model} if s.model else {}), **({'detail': s.detail} if s.detail else {})}


def _external(smt2, which):
    """Second opinion from another solver binary on an SMT-LIB dump; returns 'unsat' | 'sat' | 'unknown'."""
    with tempfile.NamedTemporaryFile('w', suffix='.smt2', delete=False) as f:
        f.write(smt2); path = f.name
    try:
        if which == 'cvc5':
            cmd = ['/usr/bin/cvc5', '--strings-exp', f'--tlimit={CVC5_TIMEOUT_S * 1000}', path]
        else:
            cmd = ['z3-new', f'-T:{CVC5_TIMEOUT_S}', path]
        r = subprocess.run(cmd, capture_output=True, text=True, timeout=CVC5_TIMEOUT_S + 10)
        out = r.stdout.strip().splitlines()
        return out[0].strip() if out and out[0].strip() in ('sat', 'unsat', 'unknown') else 'unknown'
    except Exception:
        return 'unknown'
    finally:
        os.unlink(path)


def discharge(ob, model_vars=None, use_external=True):
    if z3.is_true(ob.claim):
        ob.result = 'discharged'; ob.backend = 'trivial'; return ob
    so = z3.Solver(); so.set('timeout', Z3_TIMEOUT_MS)
    so.add(*ob.pc); so.add(z3.Not(ob.claim))
    t = time.time(); r = so.check(); ob.ms = (time.time() - t) * 1000; ob.backend = 'z3-' + z3.get_version_string()
    if r == z3.unknown and use_external:
        smt2 = so.to_smt2()
        for which in ('cvc5', 'z3-new'):
            t = time.time(); ext = _external(smt2, which); ob.ms += (time.time() - t) * 1000
            if ext == 'unsat':
                r = z3.unsat; ob.backend = which; break
            if ext == 'sat':
                ob.backend = which; ob.result = 'failed-no-model' if ob.exact else 'undecided'
                ob.detail = f'{which}: sat (no model extracted)'; return ob
    if r == z3.unsat: ob.result = 'discharged'
    elif r == z3.sat:
        ob.result = 'failed' if ob.exact else 'undecided'
        m = so.model(); ob.z3model = m
        if model_vars:
            ob.model = {}
            for k, v in model_vars.items():
                try: ob.model[k] = _pyval(m.eval(v, model_completion=True))
                except Exception as ex: ob.model[k] = f'<{ex}>'
        if not ob.exact: ob.detail = 'sat on an over-approximated (havoc) path: undecided, not a violation'
    else:
        ob.result = 'undecided'; ob.detail = 'solver: unknown/timeout (' + so.reason_unknown() + ')'
    return ob


# ------------------------------------------------------------------ parallel discharge (obligations are independent queries)
PAR_MIN = 200          # only worth it for contracts with many obligations
_POOL = [None]


def _solve_smt2(text):
    import z3 as zz
    t = time.time()
    try:
        ctx = zz.Context(); so = zz.Solver(ctx=ctx); so.set('timeout', Z3_TIMEOUT_MS)
        so.from_string(text)
        r = so.check()
        return (str(r), (time.time() - t) * 1000)
    except Exception as ex:       # noqa
        return ('error:' + type(ex).__name__, (time.time() - t) * 1000)


def discharge_all(obs, mv):
    """Non-trivial obligations of a large contract are written out as SMT-LIB and decided by worker processes; only `unsat` is taken from a worker
    (the obligation is discharged); everything else (sat, unknown, error) is decided again in this process by discharge(), which also extracts the model."""
    pending = [ob for ob in obs if not z3.is_true(ob.claim)]
    ncpu = min(16, os.cpu_count() or 1)
    if len(pending) < PAR_MIN or ncpu < 4 or os.environ.get('VERIF_SERIAL'):
        for ob in obs: discharge(ob, mv)
        return
    # adaptive: a sample decided in this process tells whether the queries are heavy enough to be worth shipping to workers
    t0 = time.time(); sample = pending[:30]
    for ob in sample: discharge(ob, mv)
    if (time.time() - t0) / max(1, len(sample)) * (len(pending) - len(sample)) < 8.0:      # the rest would take < 8 s here
        # ... by the sample's estimate; the estimate is revised while going on (cheap obligations often come first): after 6 s of serial work with
        # 50 or more queries left, the remainder goes to the workers after all
        t1 = time.time(); switched = False
        for ob in obs:
            if ob.result is None:
                discharge(ob, mv)
                if time.time() - t1 > 6.0 and sum(1 for o in pending if o.result is None) >= 50:
                    switched = True; break
        if not switched: return
        pending = [o for o in pending if o.result is None]
    else:
        pending = pending[30:]
    texts = []
    for ob in pending:
        so = z3.Solver(); so.add(*ob.pc); so.add(z3.Not(ob.claim)); texts.append(so.to_smt2())
    import multiprocessing as mp
    if _POOL[0] is None:
        _POOL[0] = mp.get_context('fork').Pool(ncpu)
        import atexit; atexit.register(lambda: (_POOL[0].terminate(), _POOL[0].join()))
    try:
        results = _POOL[0].map(_solve_smt2, texts, chunksize=4)
    except Exception:      # noqa
        results = [('error', 0.0)] * len(texts)
    done = set()
    for ob, (r, ms) in zip(pending, results):
        if r == 'unsat':
            ob.result = 'discharged'; ob.backend = 'z3-' + z3.get_version_string() + ' (worker process, SMT-LIB)'; ob.ms = ms; done.add(id(ob))
    for ob in obs:
        if id(ob) not in done and ob.result is None: discharge(ob, mv)


def _pyval(t):
    if z3.is_int_value(t): return t.as_long()
    if z3.is_true(t): return True
    if z3.is_false(t): return False
    if z3.is_string_value(t): return t.as_string()
    return str(t)


class FunctionReport:
    def __init__(self, contract):
        self.contract = contract
        self.obligations = []
        self.status = 'ok'          # ok | undecided (unsupported) | error
        self.reason = ''
        self.paths = 0
        self.wall_s = 0.0
        self.source_sha = ''
        self.unknown_calls = []

    @property
    def failed(self): return [o for o in self.obligations if o.result in ('failed', 'failed-no-model')]
    @property
    def undecided(self): return [o for o in self.obligations if o.result == 'undecided']
    @property
    def discharged(self): return [o for o in self.obligations if o.result == 'discharged']

    def summary(self):
        return (f'{self.contract.name}: status={self.status} paths={self.paths} obligations={len(self.obligations)} '
                f'discharged={len(self.discharged)} failed={len(self.failed)} undecided={len(self.undecided)} '
                f'solver_ms={sum(o.ms for o in self.obligations):.0f}' + (f' reason={self.reason}' if self.reason else ''))


def model_vars_of(params, prefix=''):
    out = {}
    for k, v in params.items():
        if not isinstance(v, Val): continue
        if v.sort in ('int', 'bool', 'str', 'dt', 'td') or v.sort.startswith('enum:'): out[prefix + k] = v.t
        elif v.sort.startswith('opt:'):
            out[prefix + k + '.isnone'] = v.t[0]
            out.update(model_vars_of({k: v.t[1]}, prefix))
        elif v.x and isinstance(v.x, dict) and 'model_vars' in v.x:
            for f, t in v.x['model_vars'].items(): out[prefix + k + '.' + f] = t
        elif v.sort == 'rec': out.update(model_vars_of(v.x, prefix + k + '.'))
        elif v.sort == 'map':
            for f, pr in v.x.get('pres', {}).items(): out[prefix + k + '.has_' + f] = pr
            out.update(model_vars_of(v.x.get('vals', {}), prefix + k + '.'))
        elif v.x and isinstance(v.x, dict) and 'model_vars' in v.x:
            for f, t in v.x['model_vars'].items(): out[prefix + k + '.' + f] = t
    return out


def verify(contract, registry, src_root='/repo'):
    """Generate and discharge every obligation of one function contract from the current source text."""
    rep = FunctionReport(contract)
    t0 = time.time()
    try:
        E.load_exception_hierarchy(src_root)
        if contract.registry_ext:
            registry = registry.copy()
            for k, d in contract.registry_ext.items(): getattr(registry, k).update(d)
        x = E.Executor(src_root, contract, registry)
        rep.source_sha = hashlib.sha256(ast.unparse(x.fn).encode()).hexdigest()[:16]
        E.PRUNE_QUANTIFIER_FREE[0] = bool(getattr(contract, 'prune_quantifier_free', False))
        try: outs = x.run()
        finally: E.PRUNE_QUANTIFIER_FREE[0] = False
    except Unsupported as u:
        rep.status = 'undecided'; rep.reason = f'outside the modelled subset: {u}'; rep.wall_s = time.time() - t0
        return rep
    except (FileNotFoundError, StopIteration, SyntaxError) as ex:
        rep.status = 'undecided'; rep.reason = f'function not found / not parseable: {ex!r}'; rep.wall_s = time.time() - t0
        return rep
    except (KeyError, AttributeError, IndexError, TypeError, ValueError, z3.Z3Exception) as ex:
        # a clause, invariant or handler of the contract refers to a local name / shape the code no longer has (renamed variable, restructured
        # loop): the contract does not fit this source any more.  That is "undecided", never a violation and never a checker fault.
        import traceback
        where = traceback.extract_tb(ex.__traceback__)[-1]
        rep.status = 'undecided'; rep.reason = f'contract does not fit the current source ({type(ex).__name__}: {ex} at {os.path.basename(where.filename)}:{where.lineno})'; rep.wall_s = time.time() - t0
        return rep
    rep.paths = len(outs); rep.executor = x; rep.outs = outs
    try:
        return _collect_and_discharge(contract, x, outs, rep, t0)
    except Unsupported as u:          # a clause met a value outside the modelled subset (e.g. an opaque result where a shaped value is expected): undecided
        rep.status = 'undecided'; rep.reason = f'outside the modelled subset: {u}'; rep.wall_s = time.time() - t0; rep.obligations = []
        return rep
    except (KeyError, AttributeError, IndexError, TypeError, ValueError, z3.Z3Exception) as ex:
        import traceback
        where = traceback.extract_tb(ex.__traceback__)[-1]
        rep.status = 'undecided'; rep.reason = f'contract does not fit the current source ({type(ex).__name__}: {ex} at {os.path.basename(where.filename)}:{where.lineno})'; rep.wall_s = time.time() - t0
        rep.obligations = []
        return rep


def _collect_and_discharge(contract, x, outs, rep, t0):
    rep.unknown_calls = sorted(x.stats.get('unknown_calls', ()))
    mv = model_vars_of(x.params)
    obs = []
    for name, pc, claim, exact, kind in x.obligations:
        obs.append(Obligation(contract.name, name, kind, pc, claim, exact))
    for i, (kind, p, v) in enumerate(outs):
        if kind == 'cut':
            for name, fn in contract.ensures:
                obs.append(Obligation(contract.name, f'cut:{name}', 'ensures', p.pc, fn(x.params, p), p.exact, i))
            continue
        if kind == 'return':
            for name, fn in contract.ensures:
                try: claim = fn(x.params, v)
                except SortMismatch as sm:
                    claim = z3.BoolVal(False); name = f'{name} [result sort: {sm}]'
                obs.append(Obligation(contract.name, f'ensures:{name}', 'ensures', p.pc, claim, p.exact, i))
            for exn, cond in contract.raises.items():
                if cond is not None:
                    obs.append(Obligation(contract.name, f'raises:{exn}:must-raise-when-condition-holds', 'raises', p.pc, z3.Not(cond(x.params)), p.exact, i))
        elif kind == 'raise':
            allowed = [exn for exn in contract.raises if v.name != '<any>' and E.is_subexc(v.name, exn)]
            if v.name == '<any>' and contract.ignore_unknown_exceptions:
                continue          # exceptions of unmodelled callees are outside this (slice) contract; listed as unmodelled_callees
            if not allowed:
                exact = p.exact and v.exact and v.name != '<any>'
                obs.append(Obligation(contract.name, f'raises:only-listed-exceptions-escape ({v.name} at {v.site})', 'escape', p.pc, z3.BoolVal(False), exact, i))
            else:
                cond = contract.raises[allowed[0]]
                if cond is not None:
                    obs.append(Obligation(contract.name, f'raises:{allowed[0]}:only-when-condition-holds', 'raises', p.pc, cond(x.params), p.exact and v.exact, i))
                else:
                    obs.append(Obligation(contract.name, f'raises:{allowed[0]}:permitted', 'raises', p.pc, z3.BoolVal(True), True, i))
        else:
            rep.status = 'undecided'; rep.reason = f'unexpected outcome kind {kind} at top level'
    if contract.on_outcomes:
        def add(name, pc, claim, exact=True, kind='lemma'):
            obs.append(Obligation(contract.name, name, kind, list(pc), claim, exact))
        try:
            contract.on_outcomes(x, outs, add)
        except Unsupported as u:
            rep.status = 'undecided'; rep.reason = f'outside the modelled subset: {u}'
    discharge_all(obs, mv)
    rep.obligations = obs
    rep.wall_s = time.time() - t0
    return rep


class SortMismatch(Exception):
    pass


def expect(v, sort):
    """used inside ensures clauses: the result must have the given sort (otherwise the clause fails, not crashes)"""
    if v.sort != sort: raise SortMismatch(f'expected {sort}, got {v.sort}')
    return v.t
