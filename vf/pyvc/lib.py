"""Default registry: models of builtins, methods dispatched on the receiver's sort, and assumed externals."""
import ast
import z3
from . import engine as E
from .engine import Val, Exc, Unsupported, NONE, Int, Bool, Str, JV, SetV, Seq, S, TAG, tag, has, get, jlen, sof, sat, EMPTY
from .contract import Registry

REG = Registry()


def pure(fn):
    """handler from a function of evaluated positional args: fn(x, vals, kwasts, path, site)"""
    def h(x, e, p, site):
        for p1, vs in x.ev_seq(list(e.args), p):
            if isinstance(vs, Exc): yield p1, vs
            else: yield from fn(x, vs, {k.arg: k.value for k in e.keywords}, p1, site)
    return h


def func(name):
    def deco(fn): REG.funcs[name] = fn; return fn
    return deco


def method(name, *sorts):
    def deco(fn):
        for s in sorts: REG.methods[(name, s)] = fn
        return fn
    return deco


# ------------------------------------------------------------------ builtins
@func('len')
@pure
def h_len(x, vs, kws, p, site):
    (v,) = vs
    if v.sort == 'str': yield p, Int(z3.Length(v.t))
    elif v.sort == 'seq': yield p, Int(v.t[1])
    elif v.sort in ('tuple', 'litlist', 'litdict'): yield p, Int(len(v.x))
    elif v.sort == 'J':
        j = v.t
        sized = z3.Or(tag(j) == TAG['list'], tag(j) == TAG['dict'], tag(j) == TAG['str'])
        q = p.fork(sized, jlen(j) >= 0, z3.Implies(tag(j) == TAG['str'], jlen(j) == z3.Length(sof(j))))
        if sat(q.pc): yield q, Int(jlen(j))
        q = p.fork(z3.Not(sized))
        if sat(q.pc): yield q, Exc('TypeError', site)
    elif v.sort == 'digits': yield p, Int(v.t[1])
    elif v.sort == 'opaque':
        q = p.inexact(); n = z3.FreshConst(z3.IntSort(), 'len'); q.pc.append(n >= 0); yield q, Int(n)
        q = p.inexact(); yield q, Exc('TypeError', site, exact=False)
    else: raise Unsupported(site + ' len of ' + v.sort)


@func('getattr')
@pure
def h_getattr(x, vs, kws, p, site):
    o, name = vs[0], vs[1]
    if not (name.sort == 'str' and z3.is_string_value(name.t)): raise Unsupported(site + ' getattr with non-literal name')
    nm = name.t.as_string()
    if o.sort == 'rec':
        if nm in o.x: yield p, o.x[nm]
        elif len(vs) > 2: yield p, vs[2]
        else: yield p, Exc('AttributeError', site)
    elif o.sort == 'opaque':
        q = p.inexact(); yield q, Val('opaque', x=f'{o.x}.{nm}')
    else: raise Unsupported(site + ' getattr on ' + o.sort)


@func('str')
@pure
def h_str(x, vs, kws, p, site):
    (v,) = vs
    if v.sort == 'str': yield p, v
    elif v.sort == 'int': yield p, Str(z3.IntToStr(v.t)) if False else Str(int_to_str(v.t))
    else:
        q = p.inexact(); yield q, Str(z3.FreshConst(S, 'str'))


def int_to_str(t):
    return z3.If(t >= 0, z3.IntToStr(t), z3.Concat(z3.StringVal('-'), z3.IntToStr(-t)))


@func('bool')
@pure
def h_bool(x, vs, kws, p, site):
    (v,) = vs
    yield p, Bool(x.truthy(v))


@func('isinstance')
def h_isinstance(x, e, p, site):
    cls = ast.unparse(e.args[1])
    for p1, vs in x.ev_seq([e.args[0]], p):
        if isinstance(vs, Exc):
            yield p1, vs; continue
        for p2, v in x.narrow(vs[0], p1):
            h = x.c.handlers.get('isinstance:' + cls)
            if h is not None:
                yield from h(x, v, p2, site); continue
            yield from isinstance_model(x, v, cls, p2, site)


JSON_CLASSES = {'dict': ['dict'], 'list': ['list'], 'str': ['str'], 'bool': ['bool'], 'int': ['int', 'bool'], 'float': ['float'],
                'collections.abc.Mapping': ['dict'], 'Mapping': ['dict'], 'collections.abc.Sequence': ['list', 'str'],
                '(list, tuple)': ['list'], '(dict, list)': ['dict', 'list'], 'tuple': [], '(str, bytes)': ['str'], 'bytes': [],
                'collections.abc.MutableMapping': ['dict'], 'collections.abc.Iterable': ['dict', 'list', 'str']}
PRIM = {'int': {'int': True, 'bool': True, 'str': False, 'none': False, 'dt': False},
        'str': {'int': False, 'bool': False, 'str': True, 'none': False, 'dt': False},
        'bool': {'int': False, 'bool': True, 'str': False, 'none': False, 'dt': False},
        'dict': {'int': False, 'bool': False, 'str': False, 'none': False, 'dt': False, 'litdict': True, 'map': False},
        'list': {'int': False, 'bool': False, 'str': False, 'none': False, 'dt': False, 'litlist': True, 'tuple': False}}


def isinstance_model(x, v, cls, p, site):
    if v.sort == 'J':
        if cls in JSON_CLASSES:
            tags = JSON_CLASSES[cls]
            yield p, Bool(z3.Or(*[tag(v.t) == TAG[t] for t in tags]) if tags else z3.BoolVal(False)); return
        # a JSON-decoded value is never an instance of a library / other class
        yield p, Bool(False); return
    if cls in PRIM and v.sort in PRIM[cls]:
        yield p, Bool(PRIM[cls][v.sort]); return
    if v.sort in ('str', 'int', 'bool') and cls in JSON_CLASSES:
        yield p, Bool(v.sort in JSON_CLASSES[cls]); return
    if v.sort in ('str', 'int', 'bool') and cls not in x.c.handlers:
        yield p, Bool(False); return              # a str/int/bool is never an instance of a library class
    if v.sort == 'none':
        yield p, Bool(False); return
    if v.sort == 'rec' and v.x.get('_kind') is not None and v.x['_kind'].x == 'datetime':
        # a datetime record: the STIXdatetime variant is the one carrying the precision attributes (timelib.mk_datetime(with_precision=True))
        if cls in ('STIXdatetime', 'stix2.utils.STIXdatetime', 'utils.STIXdatetime'): yield p, Bool('precision' in v.x); return
        if cls in ('dt.datetime', 'datetime', 'datetime.datetime', 'dt.date', 'date', 'datetime.date', '(dt.date, dt.datetime)', '(dt.datetime, dt.date)'): yield p, Bool(True); return
        if cls in PRIM or cls in JSON_CLASSES: yield p, Bool(False); return
    if v.sort == 'opaque':
        q = p.inexact(); yield q, Bool(z3.FreshConst(z3.BoolSort(), 'isinst')); return
    raise Unsupported(site + f' isinstance({v.sort}, {cls})')


@func('hasattr')
@pure
def h_hasattr(x, vs, kws, p, site):
    v, name = vs
    nm = name.t.as_string()
    if v.sort == 'J':
        # attributes of plain JSON values: only builtin methods; model the ones the library probes
        table = {'__iter__': ['list', 'dict', 'str'], 'items': ['dict'], 'get': ['dict'], 'keys': ['dict'], 'read': [], 'hour': [],
                 'lower': ['str'], 'startswith': ['str'], 'split': ['str'], 'append': ['list'], 'serialize': [], 'properties_populated': []}
        if nm not in table: raise Unsupported(site + f' hasattr(J, {nm})')
        yield p, Bool(z3.Or(*[tag(v.t) == TAG[t] for t in table[nm]]) if table[nm] else z3.BoolVal(False))
    elif v.sort == 'rec': yield p, Bool(nm in v.x)
    elif v.sort == 'opaque':
        q = p.inexact(); yield q, Bool(z3.FreshConst(z3.BoolSort(), 'hasattr'))
    else: raise Unsupported(site + f' hasattr({v.sort}, {nm})')


@func('int')
@pure
def h_int(x, vs, kws, p, site):
    """A: int(v) returns an int or raises ValueError/TypeError (OverflowError for inf is folded into ValueError's sibling below)"""
    (v,) = vs
    if v.sort == 'int':
        yield p, v; return
    if v.sort == 'bool':
        yield p, Int(z3.If(v.t, 1, 0)); return
    q = p.fork(); yield q, Exc('ValueError', site)
    q = p.fork(); yield q, Exc('TypeError', site)
    q = p.fork(); yield q, Exc('OverflowError', site)
    r = z3.FreshConst(z3.IntSort(), 'int')
    yield p.fork(), Val('int', r, x={'from': v})


@func('set')
def h_set(x, e, p, site):
    if not e.args:
        yield p, SetV(EMPTY); return
    for p1, vs in x.ev_seq(list(e.args), p):
        if isinstance(vs, Exc):
            yield p1, vs; continue
        for p2, v in x.narrow(vs[0], p1):
            if v.sort == 'set': yield p2, v
            elif v.sort == 'map':            # set(mapping): the set of its keys
                k = z3.FreshConst(E.S, 'k'); yield p2, SetV(z3.Lambda([k], v.x['present'](k)))
            elif v.sort == 'none': yield p2, Exc('TypeError', site)
            elif v.sort in ('tuple', 'litlist') and all(i.sort == 'str' for i in v.x):
                t = EMPTY
                for i in v.x: t = z3.Store(t, i.t, True)
                yield p2, SetV(t)
            elif v.sort == 'image': yield p2, SetV(as_set(v))
            else: raise Unsupported(site + ' set(' + v.sort + ')')


def as_set(v):
    if v.sort == 'set': return v.t
    if v.sort == 'str': return z3.Store(EMPTY, v.t, True)
    if v.sort == 'image':
        fn, src, cond = v.x
        t = z3.FreshConst(S, 't'); y = z3.FreshConst(S, 'y')
        return z3.Lambda([t], z3.Exists([y], z3.And(src[y], cond(y), fn(y) == t)))
    if v.sort in ('tuple', 'litlist') and all(i.sort == 'str' for i in v.x):
        t = EMPTY
        for i in v.x: t = z3.Store(t, i.t, True)
        return t
    if v.sort in E_AS_SET: return E_AS_SET[v.sort](v)
    raise Unsupported('as_set ' + v.sort)


E_AS_SET = {}


def rebinding(fn):
    """in-place mutators on value-semantics collections: rebind the receiver's name (or record field)"""
    def h(x, recv, args, e, p, site):
        recv_ast = e.func.value
        new = fn(x, recv, args, p)
        q = p.fork()
        if isinstance(recv_ast, ast.Name):
            old = q.env.get(recv_ast.id)
            q.env[recv_ast.id] = x.c.lift_local(old.sort, new) if old is not None and old.sort.startswith('opt:') else new
        elif isinstance(recv_ast, ast.Attribute) and isinstance(recv_ast.value, ast.Name) and q.env[recv_ast.value.id].sort == 'rec':
            rec = q.env[recv_ast.value.id]; q.env[recv_ast.value.id] = Val('rec', x=dict(rec.x, **{recv_ast.attr: new}))
            if isinstance(rec.x.get('_param'), str):
                x.oblige(f'frame: the argument `{rec.x["_param"]}` is not modified (in-place `{ast.unparse(e)[:60]}`)', q.pc, z3.BoolVal(False), q.exact, 'frame')
        else: raise Unsupported(site + ' mutation through ' + ast.unparse(recv_ast))
        yield q, NONE
    return h


def _u(): return z3.FreshConst(S, 'u')


@method('.update', 'set')
@rebinding
def m_set_update(x, recv, args, p):
    u = _u(); return SetV(z3.Lambda([u], z3.Or(recv.t[u], as_set(args[0])[u])))


@method('.intersection_update', 'set')
@rebinding
def m_set_isect_update(x, recv, args, p):
    u = _u(); return SetV(z3.Lambda([u], z3.And(recv.t[u], as_set(args[0])[u])))


@method('.difference_update', 'set')
@rebinding
def m_set_diff_update(x, recv, args, p):
    u = _u(); return SetV(z3.Lambda([u], z3.And(recv.t[u], z3.Not(as_set(args[0])[u]))))


@method('.add', 'set')
@rebinding
def m_set_add(x, recv, args, p):
    a = args[0]
    if a.sort in E_SET_ADD: return E_SET_ADD[a.sort](recv, a)
    if a.sort != 'str': raise Unsupported('set.add of ' + a.sort)
    return SetV(z3.Store(recv.t, a.t, True))


E_SET_ADD = {}


@method('.intersection', 'set')
def m_set_isect(x, recv, args, e, p, site):
    u = _u(); yield p, SetV(z3.Lambda([u], z3.And(recv.t[u], as_set(args[0])[u])))


@method('.difference', 'set')
def m_set_diff(x, recv, args, e, p, site):
    u = _u(); yield p, SetV(z3.Lambda([u], z3.And(recv.t[u], z3.Not(as_set(args[0])[u]))))


@method('.union', 'set')
def m_set_union(x, recv, args, e, p, site):
    u = _u(); yield p, SetV(z3.Lambda([u], z3.Or(recv.t[u], as_set(args[0])[u])))


@method('.index', 'const', 'tuple')
def m_index(x, recv, args, e, p, site):
    """tuple.index(v) on a literal tuple (module-level constant re-read from source): position of the first equal element, ValueError if none"""
    if len(args) != 1: raise Unsupported(site + ' index with bounds')
    items = [E.Const(i) for i in recv.x] if recv.sort == 'const' else list(recv.x)
    if recv.sort == 'const' and not isinstance(recv.x, (tuple, list)): raise Unsupported(site + ' index on ' + type(recv.x).__name__)
    before = []
    for i, it in enumerate(items):
        eqs = [r.t for _, r in x.compare_narrow(ast.Eq(), args[0], it, p, site)]
        if len(eqs) != 1: raise Unsupported(site + ' index: element comparison forks')
        q = p.fork(*before, eqs[0])
        if sat(q.pc): yield q, Int(i)
        before.append(z3.Not(eqs[0]))
    q = p.fork(*before)
    if sat(q.pc): yield q, Exc('ValueError', site)


# ------------------------------------------------------------------ str methods
@method('.startswith', 'str')
def m_startswith(x, recv, args, e, p, site):
    a = args[0]
    if a.sort == 'str': yield p, Bool(z3.PrefixOf(a.t, recv.t))
    elif a.sort in ('tuple', 'const'):
        items = a.x if a.sort == 'tuple' else [E.Const(i) for i in a.x]
        yield p, Bool(z3.Or(*[z3.PrefixOf(i.t, recv.t) for i in items]))
    else: raise Unsupported(site)


@method('.endswith', 'str')
def m_endswith(x, recv, args, e, p, site):
    yield p, Bool(z3.SuffixOf(args[0].t, recv.t))


@method('.lower', 'str')
def m_lower(x, recv, args, e, p, site):
    if z3.is_string_value(recv.t): yield p, Str(recv.t.as_string().lower())
    else: yield p, Val('str', STR_LOWER(recv.t))


@method('.upper', 'str')
def m_upper(x, recv, args, e, p, site):
    if z3.is_string_value(recv.t): yield p, Str(recv.t.as_string().upper())
    else: yield p, Val('str', STR_UPPER(recv.t))


STR_LOWER = z3.Function('str.lower', S, S)      # uninterpreted: only equalities between equal arguments are derivable
STR_UPPER = z3.Function('str.upper', S, S)


@method('.format', 'str')
def m_format(x, recv, args, e, p, site):
    h = x.c.handlers.get('format:' + (recv.t.as_string() if z3.is_string_value(recv.t) else '?'))
    if h is not None:
        yield from h(x, recv, args, e, p, site); return
    q = p.inexact(); yield q, Str(z3.FreshConst(S, 'fmt'))


# ------------------------------------------------------------------ dict-like access on 'map' (STIX object / kwargs) and J
@method('.get', 'map')
def m_map_get(x, recv, args, e, p, site):
    if not (args[0].sort == 'str' and z3.is_string_value(args[0].t)): raise Unsupported(site + ' map.get non-literal')
    name = args[0].t.as_string()
    default = args[1] if len(args) > 1 else NONE
    val = recv.x['value'](name)
    if default.sort == 'none':
        if val.sort.startswith('opt:'):     # stored optional: absent or stored None both read as None
            yield p, Val(val.sort, (z3.Or(z3.Not(recv.x['present'](name)), val.t[0]), val.t[1]))
        else:
            yield p, Val('opt:' + val.sort, (z3.Not(recv.x['present'](name)), val))
    else:
        q = p.fork(recv.x['present'](name))
        if sat(q.pc): yield q, val
        q = p.fork(z3.Not(recv.x['present'](name)))
        if sat(q.pc): yield q, default


@method('.get', 'J')
def m_j_get(x, recv, args, e, p, site):
    j = recv.t; k = args[0]
    if k.sort != 'str': raise Unsupported(site + ' J.get key ' + k.sort)
    q = p.fork(tag(j) != TAG['dict'])
    if sat(q.pc): yield q, Exc('AttributeError', site)
    q = p.fork(tag(j) == TAG['dict'], has(j, k.t))
    if sat(q.pc): yield q, JV(get(j, k.t))
    q = p.fork(tag(j) == TAG['dict'], z3.Not(has(j, k.t)))
    if sat(q.pc): yield q, (args[1] if len(args) > 1 else NONE)


@method('.items', 'J')
def m_j_items(x, recv, args, e, p, site):
    j = recv.t
    q = p.fork(tag(j) != TAG['dict'])
    if sat(q.pc): yield q, Exc('AttributeError', site)
    q = p.fork(tag(j) == TAG['dict'], jlen(j) >= 0)
    if sat(q.pc):
        E._counter[0] += 1
        kf = z3.Function(f'keyat!{E._counter[0]}', z3.IntSort(), S)
        ii = z3.Int('ii!items')
        q.pc.append(z3.ForAll([ii], z3.Implies(z3.And(0 <= ii, ii < jlen(j)), has(j, kf(ii)))))
        yield q, Seq(lambda i: Val('tuple', x=[Str(kf(i)), JV(get(j, kf(i)))]), jlen(j))


@method('.keys', 'J')
def m_j_keys(x, recv, args, e, p, site):
    j = recv.t
    q = p.fork(tag(j) != TAG['dict'])
    if sat(q.pc): yield q, Exc('AttributeError', site)
    q = p.fork(tag(j) == TAG['dict'], jlen(j) >= 0)
    if sat(q.pc):
        E._counter[0] += 1
        kf = z3.Function(f'keyat!{E._counter[0]}', z3.IntSort(), S)
        ii = z3.Int('ii!keys')
        q.pc.append(z3.ForAll([ii], z3.Implies(z3.And(0 <= ii, ii < jlen(j)), has(j, kf(ii)))))
        yield q, Seq(lambda i: Str(kf(i)), jlen(j), keys_of=j)


def j_str_method(result):
    """str-only methods called on a J value: AttributeError unless it is a str"""
    def h(x, recv, args, e, p, site):
        j = recv.t
        q = p.fork(tag(j) != TAG['str'])
        if sat(q.pc): yield q, Exc('AttributeError', site)
        q = p.fork(tag(j) == TAG['str'])
        if sat(q.pc): yield from result(x, Str(sof(j)), args, e, q, site)
    return h


def _arg_str(x, a, p, site):
    """an argument that must be str for a str method: J arguments fork on their tag (TypeError otherwise)"""
    if a.sort == 'str':
        yield p, a
    elif a.sort == 'J':
        q = p.fork(tag(a.t) == TAG['str'])
        if sat(q.pc): yield q, Str(sof(a.t))
        q = p.fork(tag(a.t) != TAG['str'])
        if sat(q.pc): yield q, Exc('TypeError', site)
    else: yield p, Exc('TypeError', site)


def _startswith_any(x, recv, args, e, p, site):
    yield from m_startswith(x, recv, args, e, p, site)


REG.methods[('.startswith', 'J')] = j_str_method(_startswith_any)
REG.methods[('.endswith', 'J')] = j_str_method(m_endswith)
REG.methods[('.lower', 'J')] = j_str_method(m_lower)
REG.methods[('.upper', 'J')] = j_str_method(m_upper)


# ------------------------------------------------------------------ calls to repository functions: binding by the REAL signature
def real_sig(src_root, relpath, qualname):
    import os
    tree = ast.parse(open(os.path.join(src_root, relpath)).read())
    return E.real_signature(E.find_def(tree, qualname))


def bind_actuals(sig, call, vals, skip_self=False):
    """Python's own binding rules: positional actuals to formals in order, then keywords, then defaults.
    sig = ([(name, default_ast, kind)], vararg, kwarg); vals = evaluated positional then keyword actuals.
    Returns (bound: name -> Val | ('default', ast) , errors: [str])"""
    formals, vararg, kwarg = sig
    if skip_self: formals = formals[1:]
    pos = [f for f in formals if f[2] == 'pos']
    bound = {}; errors = []
    npos = len(call.args)
    for i, v in enumerate(vals[:npos]):
        if i < len(pos): bound[pos[i][0]] = v
        elif vararg: bound.setdefault('*' + vararg, []).append(v)
        else: errors.append(f'too many positional arguments ({npos} > {len(pos)})')
    for k, v in zip(call.keywords, vals[npos:]):
        names = [f[0] for f in formals]
        if k.arg in bound: errors.append(f'multiple values for {k.arg}')
        elif k.arg in names: bound[k.arg] = v
        elif kwarg: bound.setdefault('**' + kwarg, {})[k.arg] = v
        else: errors.append(f'unexpected keyword {k.arg}')
    for name, default, kind in formals:
        if name not in bound:
            if default is None: errors.append(f'missing argument {name}')
            else: bound[name] = ('default', default)
    return bound, errors


def recording_callee(src_root, relpath, qualname, result=None, skip_self=False, may_raise=()):
    """handler for a call to a repository function under its own contract: actuals are bound to formals by the callee's real
    `def` (re-read from source); the binding is appended to the ghost list 'calls' of the path; result(bound) builds the value."""
    def h(x, e, p, site):
        sig = real_sig(x.src_root, relpath, qualname)
        for p1, vs in x.ev_seq(list(e.args) + [k.value for k in e.keywords], p):
            if isinstance(vs, Exc):
                yield p1, vs; continue
            bound, errors = bind_actuals(sig, e, vs, skip_self)
            for err in errors:
                x.oblige(f'call({qualname})@{ast.unparse(e)[:50]}: binds to the real signature ({err})', p1.pc, z3.BoolVal(False), p1.exact, 'call-requires')
            for exn in may_raise:
                yield p1.fork(), Exc(exn, site)
            q = p1.fork()
            rec = {'callee': qualname, 'bound': bound, 'site': site, 'actuals': {ast.unparse(a): None for a in e.args}}
            q.ghost = dict(q.ghost, calls=list(q.ghost.get('calls', [])) + [rec])
            yield q, (result(bound, x, q) if result else Val('callres', x=rec))
    return h


# ------------------------------------------------------------------ 'map': string-keyed mapping (STIX object, kwargs, dict) with declared fields
def mk_map(name, fields, open_keys=True):
    """fields: literal key -> sort.  Each declared key has a presence flag and a value; with open_keys the map may also hold
    other (undeclared) keys, described only by a symbolic key set."""
    pres = {k: z3.Bool(f'{name}.has_{k}') for k in fields}
    vals = {k: E.named(s, f'{name}.{k}') for k, s in fields.items()}
    other = z3.Const(f'{name}.other_keys', E.SetS) if open_keys else EMPTY
    return map_val(pres, vals, other, dict(fields))


def map_val(pres, vals, other, sorts):
    def present(k):
        if isinstance(k, str):
            return pres[k] if k in pres else other[z3.StringVal(k)]
        t = other[k]
        for name, pr in pres.items(): t = z3.If(k == z3.StringVal(name), pr, t)
        return t

    def value(k):
        if k in vals: return vals[k]
        return Val('opaque', x=f'map[{k}]')
    return Val('map', x={'present': present, 'value': value, 'sort': lambda k: sorts.get(k, 'opaque'), 'pres': pres, 'vals': vals, 'other': other, 'sorts': sorts})


def map_store(m, key, v):
    """m[key] = v for a literal key (value semantics: returns the new map)"""
    pres = dict(m.x['pres']); vals = dict(m.x['vals']); sorts = dict(m.x['sorts'])
    pres[key] = z3.BoolVal(True); vals[key] = v; sorts[key] = v.sort
    return map_val(pres, vals, m.x['other'], sorts)


def map_update(m, other):
    """m.update(other): other's keys win"""
    pres = dict(m.x['pres']); vals = dict(m.x['vals']); sorts = dict(m.x['sorts'])
    for k in set(pres) | set(other.x['pres']):
        op = other.x['present'](k); ov = other.x['value'](k)
        mp = m.x['present'](k); mv = m.x['value'](k)
        pres[k] = z3.Or(mp, op)
        if k in other.x['pres'] and k in m.x['pres'] and ov.sort == mv.sort and ov.sort in ('int', 'bool', 'str', 'dt'):
            vals[k] = Val(ov.sort, z3.If(op, ov.t, mv.t))
        elif k in other.x['pres'] and k not in m.x['pres']:
            vals[k] = ov if z3.is_true(z3.simplify(op)) else Val('cond', x=(op, ov, mv))
        elif k in other.x['pres']:
            vals[k] = ov if z3.is_true(z3.simplify(op)) else (mv if z3.is_false(z3.simplify(op)) else Val('cond', x=(op, ov, mv)))
        sorts[k] = vals[k].sort
    u = z3.FreshConst(S, 'u')
    return map_val(pres, vals, z3.Lambda([u], z3.Or(m.x['other'][u], other.x['other'][u])), sorts)


def _contains_map(x, c, item, p, site):
    yield p, Bool(c.x['present'](item.t.as_string() if z3.is_string_value(item.t) else item.t))


REG.contains[('map', 'str')] = _contains_map


@method('.keys', 'map')
def m_map_keys(x, recv, args, e, p, site):
    yield p, Val('mapkeys', x=recv)


def _cmp_mapkeys(x, op, a, b, p, site):
    """data.keys() >= {literal set}: every literal is present"""
    if isinstance(op, ast.GtE) and b.sort == 'const' and isinstance(b.x, (set, frozenset)):
        yield p, Bool(z3.And(*[a.x.x['present'](k) for k in sorted(b.x)])); return
    raise Unsupported(site + ' mapkeys compare')


REG.compare[('mapkeys', 'const')] = _cmp_mapkeys


def slice_str(x, o, sl, p, site):
    """s[a:b] with integer-constant (possibly negative / missing) bounds, exact"""
    def const(n):
        if n is None: return None
        if isinstance(n, ast.Constant) and isinstance(n.value, int): return n.value
        if isinstance(n, ast.UnaryOp) and isinstance(n.op, ast.USub) and isinstance(n.operand, ast.Constant): return -n.operand.value
        raise Unsupported(site + ' slice bound')
    if sl.step is not None: raise Unsupported(site + ' slice step')
    lo, hi = const(sl.lower), const(sl.upper); n = z3.Length(o.t)
    def norm(b, default):
        if b is None: return default
        if b >= 0: return z3.If(n < b, n, z3.IntVal(b))
        return z3.If(n + b < 0, z3.IntVal(0), n + b)
    a, b = norm(lo, z3.IntVal(0)), norm(hi, n)
    yield p, Str(z3.If(b > a, z3.SubString(o.t, a, b - a), z3.StringVal('')))


REG.slices['str'] = slice_str


@method('.items', 'litdict')
def m_litdict_items(x, recv, args, e, p, site):
    if isinstance(recv.x, dict): yield p, Val('litlist', x=[Val('tuple', x=[Str(k), v]) for k, v in recv.x.items()])
    else: yield p, Val('litlist', x=[Val('tuple', x=[k, v]) for k, v in recv.x])


@method('.get', 'litdict')
def m_litdict_get(x, recv, args, e, p, site):
    if isinstance(recv.x, dict) and not recv.x:
        yield p, (args[1] if len(args) > 1 else NONE)
    else: raise Unsupported(site + ' get on non-empty literal dict')


# ------------------------------------------------------------------ re.match / re.fullmatch with a literal or module-level compiled pattern
def _resolve_pattern(x, node):
    """(pattern text, flags) for a pattern expression: string literal, or a module-level NAME = re.compile(<literal>[, flags])"""
    import re as _re
    if isinstance(node, ast.Constant) and isinstance(node.value, str): return node.value, 0
    if isinstance(node, ast.Name) and node.id in x.module_consts:
        v = x.module_consts[node.id]
        if isinstance(v, ast.Call) and ast.unparse(v.func) == 're.compile' and isinstance(v.args[0], ast.Constant):
            flags = 0
            if len(v.args) > 1: flags = eval(compile(ast.Expression(v.args[1]), '<flags>', 'eval'), {'re': _re})
            return v.args[0].value, flags
    raise Unsupported('pattern expression ' + ast.unparse(node))


def h_re_match(full):
    def h(x, e, p, site):
        from . import rx
        pat, flags = _resolve_pattern(x, e.args[0])
        try: L = rx.match_language(pat, flags, full=full)
        except rx.RxUnsupported as ex: raise Unsupported(site + f' regex outside the translated subset: {ex}')
        for p1, vs in x.ev_seq([e.args[1]], p):
            if isinstance(vs, Exc):
                yield p1, vs; continue
            s = vs[0]
            if s.sort == 'J':
                q = p1.fork(tag(s.t) != TAG['str'])
                if sat(q.pc): yield q, Exc('TypeError', site)
                p1 = p1.fork(tag(s.t) == TAG['str']); s = Str(sof(s.t))
                if not sat(p1.pc): continue
            if s.sort != 'str': raise Unsupported(site + ' re.match on ' + s.sort)
            yield p1, Val('matchobj', z3.InRe(s.t, L), x={'pattern': pat, 'flags': flags})
    return h


REG.funcs['re.match'] = h_re_match(False)
REG.funcs['re.fullmatch'] = h_re_match(True)
