"""Theories for timestamps: DigitStr (fixed-width decimal digit strings), datetime records, format strings.

datetime model (sort 'rec'): us = the UTC instant in microseconds since 0001-01-01T00:00:00Z, off = UTC offset in
microseconds (0 for naive values, which the library reads as UTC), wall clock = us + off.  Civil fields are
uninterpreted functions of the wall-clock second (only their identity matters), microsecond = wall mod 10^6.
"""
import ast, string
import z3
from . import engine as E
from .engine import Val, Exc, Unsupported, NONE, Int, Bool, Str, sat, Rec, Opt
from .lib import REG, method, func, pure

M = 10**6
CIVIL = {f: z3.Function('civil.' + f, z3.IntSort(), z3.IntSort()) for f in ('year', 'month', 'day', 'hour', 'minute', 'second')}
WIDTH = {'year': 4, 'month': 2, 'day': 2, 'hour': 2, 'minute': 2, 'second': 2}


def floor_div(t, k):      # k > 0 constant: z3 div is floor for positive divisors
    return t / k


def mk_datetime(name, kind='datetime', with_precision=True, aware=None):
    """symbolic datetime / STIXdatetime / date parameter"""
    us = z3.Int(name + '.us'); off = z3.Int(name + '.off')
    tz_none = z3.Bool(name + '.tzinfo_is_none') if aware is None else z3.BoolVal(not aware)
    off_none = z3.Bool(name + '.utcoffset_is_none')
    v = dt_record(us, off, tz_none, off_none)
    v.x['model_vars'] = {'us': us, 'off': off, 'tzinfo_is_none': tz_none, 'utcoffset_is_none': off_none}
    if with_precision:
        E.declare_enum('Precision', ['ANY', 'SECOND', 'MILLISECOND']); E.declare_enum('PrecisionConstraint', ['EXACT', 'MIN'])
        v.x['precision'] = E.named('enum:Precision', name + '.precision')
        v.x['precision_constraint'] = E.named('enum:PrecisionConstraint', name + '.precision_constraint')
        v.x['model_vars'].update(precision=v.x['precision'].t, precision_constraint=v.x['precision_constraint'].t)
    if kind == 'date':
        for f in ('hour', 'minute', 'second', 'microsecond', 'tzinfo'): v.x.pop(f, None)
        v.x['is_date_only'] = Bool(True)
    return v


def dt_record(us, off, tz_none, off_none=None, extra=None):
    wall = us + off
    fields = {f: Int(CIVIL[f](floor_div(wall, M))) for f in CIVIL}
    fields['microsecond'] = Int(wall % M)
    tz = Rec(_offset_none=Bool(off_none if off_none is not None else z3.BoolVal(False)), _off=Int(off))
    fields['tzinfo'] = Opt(tz_none, tz)
    v = Val('rec', x=dict(fields, _us=Int(us), _off=Int(off), _tz_none=Bool(tz_none), _kind=Val('const', x='datetime'), **(extra or {})))
    return v


def well_formed_dt(v):
    """type invariant of a datetime record: naive values carry offset 0 in the model; offsets are whole seconds (assumption
    recorded in the evidence: every IANA zone; Python also permits sub-second offsets, which are outside the contract)"""
    us, off = v.x['_us'].t, v.x['_off'].t
    return z3.And(us >= 0, off % M == 0, z3.Implies(v.x['_tz_none'].t, off == 0),
                  z3.Implies(z3.And(z3.Not(v.x['_tz_none'].t), v.x['tzinfo'].t[1].x['_offset_none'].t), off == 0))


# ------------------------------------------------------------------ DigitStr
class Digits:
    """Val('digits', (value, n)): the decimal string of `value` left-padded with zeros to exactly n digits (n a Python int)."""
    @staticmethod
    def make(val, n): return Val('digits', (val, n))

    @staticmethod
    def rstrip0(v, p):
        val, n = v.t
        for k in range(n + 1):        # exactly k trailing zeros are stripped
            if k < n: cond = z3.And(val % (10 ** k) == 0, val % (10 ** (k + 1)) != 0)
            else: cond = val == 0
            q = p.fork(cond)
            if sat(q.pc): yield q, Digits.make(val / (10 ** k), n - k)

    @staticmethod
    def ljust0(v, width):
        val, n = v.t
        return v if n >= width else Digits.make(val * 10 ** (width - n), width)

    @staticmethod
    def prefix(v, k):
        val, n = v.t
        return v if n <= k else Digits.make(val / (10 ** (n - k)), k)


@method('.rstrip', 'digits')
def m_rstrip(x, recv, args, e, p, site):
    if not (len(args) == 1 and z3.is_string_value(args[0].t) and args[0].t.as_string() == '0'): raise Unsupported(site)
    yield from Digits.rstrip0(recv, p)


@method('.ljust', 'digits')
def m_ljust(x, recv, args, e, p, site):
    if not (len(args) == 2 and z3.is_int_value(args[0].t) and z3.is_string_value(args[1].t) and args[1].t.as_string() == '0'): raise Unsupported(site)
    yield p, Digits.ljust0(recv, args[0].t.as_long())


def slice_digits(x, o, sl, p, site):
    if sl.lower is None and sl.step is None and isinstance(sl.upper, ast.Constant) and isinstance(sl.upper.value, int) and sl.upper.value >= 0:
        yield p, Digits.prefix(o, sl.upper.value)
    else: raise Unsupported(site + ' slice')


REG.slices['digits'] = slice_digits


# ------------------------------------------------------------------ str.format with a literal template
def parse_template(fmt):
    """[(literal, spec-or-None)] via the real string.Formatter; only positional auto-numbered fields"""
    out = []
    for lit, field, spec, conv in string.Formatter().parse(fmt):
        if field not in (None, '') or conv: raise Unsupported('format field ' + repr(field))
        out.append((lit, spec if field is not None else None))
    return out


def m_format_literal(x, recv, args, e, p, site):
    try:
        if not z3.is_string_value(recv.t): raise Unsupported(site + ' format on non-literal')
        fmt = recv.t.as_string()
        parts = parse_template(fmt)
        for _, spec in parts:
            if spec not in (None, '') and not (len(spec) == 3 and spec[0] == '0' and spec[2] == 'd' and spec[1].isdigit()): raise Unsupported('spec')
    except Unsupported:
        q = p.inexact(); yield q, Str(z3.FreshConst(E.S, 'fmt')); return
    fields = [s for _, s in parts if s is not None]
    if len(fields) != len(args):
        yield p, Exc('IndexError', site); return
    if fmt == '{:06d}' and args[0].sort == 'int':
        # A: "{:06d}".format(n) is the 6-digit zero-padded decimal of n for 0 <= n < 10^6 (probed exhaustively)
        x.oblige(f'format({fmt}).argument-in-range', p.pc, z3.And(args[0].t >= 0, args[0].t < M), p.exact, 'call-requires')
        yield p, Digits.make(args[0].t, 6); return
    items = []; ai = 0
    for lit, spec in parts:
        if lit: items.append(('lit', lit))
        if spec is not None:
            a = args[ai]; ai += 1
            if spec == '':
                items.append(('val', a))
            elif len(spec) == 3 and spec[0] == '0' and spec[2] == 'd' and spec[1].isdigit() and a.sort == 'int':
                items.append(('int', int(spec[1]), a))
            else: raise Unsupported(site + ' format spec ' + spec)
    yield p, Val('fmtstr', x=items)


REG.methods[('.format', 'str')] = m_format_literal


def flatten_fmt(v):
    """fmtstr -> flat list of ('lit', s) | ('int', width, Val) | ('val', Val)"""
    out = []
    for it in v.x:
        if it[0] == 'val' and it[1].sort == 'fmtstr': out += flatten_fmt(it[1])
        elif it[0] == 'val' and it[1].sort == 'str' and z3.is_string_value(it[1].t):
            if it[1].t.as_string(): out.append(('lit', it[1].t.as_string()))
        else: out.append(it)
    # merge adjacent literals
    merged = []
    for it in out:
        if it[0] == 'lit' and merged and merged[-1][0] == 'lit': merged[-1] = ('lit', merged[-1][1] + it[1])
        else: merged.append(it)
    return merged


# ------------------------------------------------------------------ datetime operations (assumed contracts, see DESIGN 2.7)
@func('pytz.utc.localize')
@pure
def h_localize(x, vs, kws, p, site):
    """A (pytz): localize(d) raises ValueError unless d.tzinfo is None; otherwise same wall clock, UTC"""
    (d,) = vs
    if d.sort != 'rec' or '_us' not in d.x: raise Unsupported(site + ' localize of ' + d.sort)
    q = p.fork(z3.Not(d.x['_tz_none'].t))
    if sat(q.pc): yield q, Exc('ValueError', site)
    q = p.fork(d.x['_tz_none'].t)
    if sat(q.pc):
        keep = {k: v for k, v in d.x.items() if k in ('precision', 'precision_constraint')}
        yield q, dt_record(d.x['_us'].t + d.x['_off'].t, z3.IntVal(0), z3.BoolVal(False), extra=None)


@method('.astimezone', 'rec')
def m_astimezone(x, recv, args, e, p, site):
    """A (datetime): astimezone(utc) preserves the instant, offset 0.  (On a naive value Python assumes *local* time:
    the library only calls it on aware values -- obligation below.)"""
    if '_us' not in recv.x: raise Unsupported(site)
    x.oblige('astimezone.receiver-is-aware', p.pc, z3.And(z3.Not(recv.x['_tz_none'].t), z3.Not(recv.x['tzinfo'].t[1].x['_offset_none'].t)), p.exact, 'call-requires')
    yield p, dt_record(recv.x['_us'].t, z3.IntVal(0), z3.BoolVal(False))


@method('.utcoffset', 'rec')
def m_utcoffset(x, recv, args, e, p, site):
    if '_offset_none' not in recv.x: raise Unsupported(site)
    yield p, Opt(recv.x['_offset_none'].t, Val('td', recv.x['_off'].t))


@method('.replace', 'rec')
def m_replace(x, recv, args, e, p, site):
    if '_us' not in recv.x or args: raise Unsupported(site)
    us, off, tzn = recv.x['_us'].t, recv.x['_off'].t, recv.x['_tz_none'].t
    offnone = recv.x['tzinfo'].t[1].x['_offset_none'].t
    for kw in e.keywords:
        for p1, vs in x.ev_seq([kw.value], p):
            if isinstance(vs, Exc):
                yield p1, vs; return
            v = vs[0]
            if kw.arg == 'microsecond' and v.sort == 'int':
                x.oblige('replace.microsecond-in-range', p1.pc, z3.And(v.t >= 0, v.t < M), p1.exact, 'call-requires')
                us = us - ((us + off) % M) + v.t
            elif kw.arg == 'tzinfo' and v.sort == 'none':
                us = us + off; off = z3.IntVal(0); tzn = z3.BoolVal(True); offnone = z3.BoolVal(False)
            else: raise Unsupported(site + ' replace ' + kw.arg)
            p = p1
    keep = {k: v for k, v in recv.x.items() if k in ('precision', 'precision_constraint')}
    yield p, dt_record(us, off, tzn, offnone, extra=keep)


@func('dt.timedelta')
def h_timedelta(x, e, p, site):
    total = 0
    for kw in e.keywords:
        if not isinstance(kw.value, ast.Constant): raise Unsupported(site)
        total += kw.value.value * {'microseconds': 1, 'milliseconds': 1000, 'seconds': M, 'minutes': 60 * M, 'hours': 3600 * M, 'days': 86400 * M}[kw.arg]
    if e.args: raise Unsupported(site)
    yield p, Val('td', z3.IntVal(total))


REG.funcs['datetime.timedelta'] = h_timedelta
REG.funcs['timedelta'] = h_timedelta
