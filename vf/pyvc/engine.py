"""PyVC: verification-condition generation for real Python source by forward symbolic execution.

The function text is re-read from the repository with `ast` on every run (nothing is transcribed); a sidecar
`Contract` supplies sorts for the parameters, preconditions, (exceptional) postconditions, loop invariants and
contracts for callees.  Every path through the function yields obligations `path-condition |- clause`, discharged
by z3 (see prove.py).  Anything outside the modelled subset raises `Unsupported` => the function is *undecided*,
never a violation.  Paths that went through an over-approximation (havoc) carry exact=False: a `sat` answer on
such a path is undecided as well.
"""
import ast, builtins, os, time
import z3

# ------------------------------------------------------------------------------------------------ sorts / values
TAGS = ['null', 'bool', 'int', 'float', 'str', 'list', 'dict']
Tag, _tagc = z3.EnumSort('Tag', TAGS)
TAG = dict(zip(TAGS, _tagc))
J = z3.DeclareSort('J')                                   # arbitrary JSON value (C17)
S = z3.StringSort()
tag = z3.Function('tag', J, Tag)
has = z3.Function('has', J, S, z3.BoolSort())              # dict membership
get = z3.Function('get', J, S, J)                          # dict lookup
elem = z3.Function('elem', J, z3.IntSort(), J)             # list element
jlen = z3.Function('jlen', J, z3.IntSort())                # len() of list/dict/str
sof = z3.Function('str_of', J, S)
iof = z3.Function('int_of', J, z3.IntSort())
bof = z3.Function('bool_of', J, z3.BoolSort())
fnz = z3.Function('float_nonzero', J, z3.BoolSort())
SetS = z3.ArraySort(S, z3.BoolSort())
EMPTY = z3.K(S, False)


class Val:
    """A symbolic Python value: sort name + z3 term(s) `t` + python-side payload `x`."""
    __slots__ = ('sort', 't', 'x')

    def __init__(s, sort, t=None, x=None):
        s.sort, s.t, s.x = sort, t, x

    def __repr__(s):
        return f'<{s.sort} {s.t if s.t is not None else s.x}>'


def Int(t): return Val('int', t if z3.is_expr(t) else z3.IntVal(t))
def Bool(t): return Val('bool', t if z3.is_expr(t) else z3.BoolVal(t))
def Str(t): return Val('str', t if z3.is_expr(t) else z3.StringVal(t))
def JV(t): return Val('J', t)
def Opt(isnone, inner): return Val('opt:' + inner.sort, (isnone, inner))
def Rec(**fields): return Val('rec', x=dict(fields))
def SetV(t): return Val('set', t)
def Seq(elem_fn, length, **x): return Val('seq', (elem_fn, length), x or None)


NONE = Val('none')
TRUE, FALSE = Bool(True), Bool(False)


def Const(py):
    if py is None: return NONE
    if isinstance(py, bool): return Bool(py)
    if isinstance(py, int): return Int(py)
    if isinstance(py, str): return Str(py)
    return Val('const', x=py)


class Exc:
    """An exception outcome.  name == '<any>' stands for an unknown exception of an unmodelled callee."""

    def __init__(s, name, site, exact=True):
        s.name, s.site, s.exact = name, site, exact

    def __repr__(s):
        return f'Exc({s.name}@{s.site})'


_counter = [0]
ENUMS = {}


def declare_enum(name, members):
    if name not in ENUMS:
        s, cs = z3.EnumSort(name, list(members))
        ENUMS[name] = (s, dict(zip(members, cs)))
    return ENUMS[name]


def enum_val(name, member): return Val('enum:' + name, ENUMS[name][1][member])


def fresh(sort, name='v'):
    _counter[0] += 1
    nm = f'{name}!{_counter[0]}'
    return named(sort, nm)


def named(sort, nm):
    if isinstance(sort, Val): return sort
    if callable(sort): return sort(nm)
    if sort == 'int': return Int(z3.Int(nm))
    if sort == 'bool': return Bool(z3.Bool(nm))
    if sort == 'str': return Str(z3.String(nm))
    if sort == 'J': return JV(z3.Const(nm, J))
    if sort == 'dt': return Val('dt', z3.Int(nm))            # microseconds since 0001-01-01T00:00:00Z
    if sort == 'td': return Val('td', z3.Int(nm))
    if sort == 'set': return SetV(z3.Const(nm, SetS))
    if sort == 'none': return NONE
    if sort.startswith('opt:'): return Val(sort, (z3.Bool(nm + '.isnone'), named(sort[4:], nm)))
    if sort.startswith('enum:'): return Val(sort, z3.Const(nm, ENUMS[sort[5:]][0]))
    if sort == 'opaque': return Val('opaque', x=nm)
    raise NotImplementedError(sort)


class Path:
    def __init__(s, env=None, pc=None, exact=True, ghost=None):
        s.env = dict(env or {}); s.pc = list(pc or []); s.exact = exact; s.ghost = dict(ghost or {})

    def fork(s, *conds):
        q = Path(s.env, s.pc, s.exact, s.ghost)
        q.pc += [c for c in conds]
        return q

    def inexact(s, *conds):
        q = s.fork(*conds); q.exact = False
        return q


STATS = {'sat_calls': 0, 'solver_s': 0.0}


_QCACHE = {}
PRUNE_QUANTIFIER_FREE = [False]      # set by a contract (prune_quantifier_free=True): pruning looks at the quantifier-free facts only


def _has_quantifier(f):
    k = f.get_id()
    if k in _QCACHE: return _QCACHE[k]
    stack = [f]; seen = set(); r = False
    while stack:
        t = stack.pop()
        if t.get_id() in seen: continue
        seen.add(t.get_id())
        if z3.is_quantifier(t): r = True; break
        stack.extend(t.children())
    _QCACHE[k] = r
    return r


def sat(pc, timeout_ms=800):
    """Feasibility pruning: unknown counts as feasible (sound for proving).  With PRUNE_QUANTIFIER_FREE only the quantifier-free facts are
    consulted: fewer infeasible paths are recognised (their obligations are then discharged with an unsatisfiable path condition), none is lost."""
    if PRUNE_QUANTIFIER_FREE[0]: pc = [f for f in pc if not _has_quantifier(f)]
    s = z3.Solver(); s.set('timeout', timeout_ms); s.add(*pc)
    t = time.time(); r = s.check()
    STATS['sat_calls'] += 1; STATS['solver_s'] += time.time() - t
    return r != z3.unsat


# ------------------------------------------------------------------------------------------------ exception classes
EXC_PARENTS = {}
for _n, _o in vars(builtins).items():
    if isinstance(_o, type) and issubclass(_o, BaseException) and _o.__mro__[1:2]:
        EXC_PARENTS[_n] = _o.__mro__[1].__name__ if _o is not BaseException else None
EXC_PARENTS['json.JSONDecodeError'] = 'ValueError'
EXC_PARENTS['JSONDecodeError'] = 'ValueError'


def load_exception_hierarchy(src_root):
    """Re-read the library's own exception classes from its source on every run."""
    tree = ast.parse(open(os.path.join(src_root, 'stix2/exceptions.py')).read())
    for n in tree.body:
        if isinstance(n, ast.ClassDef) and n.bases:
            EXC_PARENTS[n.name] = ast.unparse(n.bases[0]).split('.')[-1]


def is_subexc(name, base):
    seen = 0
    while name and seen < 50:
        if name == base: return True
        name = EXC_PARENTS.get(name); seen += 1
    return False


class Unsupported(Exception):
    pass


# ------------------------------------------------------------------------------------------------ source access
def find_def(tree, qualname):
    node = tree
    for part in qualname.split('.'):
        node = next((n for n in node.body if isinstance(n, (ast.FunctionDef, ast.ClassDef)) and n.name == part), None)
        if node is None:
            raise Unsupported(f'definition {qualname} not found')
    return node


def real_signature(fn):
    """[(name, default-ast-or-None)] from the real def, plus vararg/kwarg names."""
    a = fn.args
    pos = a.posonlyargs + a.args
    defaults = [None] * (len(pos) - len(a.defaults)) + list(a.defaults)
    sig = [(arg.arg, d, 'pos') for arg, d in zip(pos, defaults)]
    sig += [(arg.arg, d, 'kwonly') for arg, d in zip(a.kwonlyargs, a.kw_defaults)]
    return sig, (a.vararg.arg if a.vararg else None), (a.kwarg.arg if a.kwarg else None)


def loop_ordinal(fn, node):
    loops = [n for n in ast.walk(fn) if isinstance(n, (ast.For, ast.While))]
    loops.sort(key=lambda n: (n.lineno, n.col_offset))
    return loops.index(node)


def _stored_names(stmts):
    out = set()
    for st in stmts:
        for n in ast.walk(st):
            if isinstance(n, ast.Name) and isinstance(n.ctx, ast.Store): out.add(n.id)
    return out


MUTATORS = {'append', 'add', 'update', 'extend', 'pop', 'remove', 'clear', 'insert', 'setdefault', 'discard', 'intersection_update',
            'difference_update', 'symmetric_difference_update', 'sort', 'reverse', 'popitem', '__setitem__', '__delitem__'}


def _mutated_names(stmts):
    """names rebound by assignment or mutated through a method call / subscript store on them (x.add(..), x[k] = v, x.a.f(..))"""
    out = _stored_names(stmts)
    for st in stmts:
        for n in ast.walk(st):
            if isinstance(n, ast.Call) and isinstance(n.func, ast.Attribute) and n.func.attr in MUTATORS:
                base = n.func.value
                while isinstance(base, (ast.Attribute, ast.Subscript)): base = base.value
                if isinstance(base, ast.Name): out.add(base.id)
            if isinstance(n, (ast.Subscript, ast.Attribute)) and isinstance(n.ctx, (ast.Store, ast.Del)):
                base = n.value
                while isinstance(base, (ast.Attribute, ast.Subscript)): base = base.value
                if isinstance(base, ast.Name): out.add(base.id)
    return out


def _live_in(stmts, defined):
    """(names possibly read before being defined, names defined on all paths): def-before-use analysis."""
    live = set(); defined = set(defined)

    def names(node, ctx):
        return {n.id for n in ast.walk(node) if isinstance(n, ast.Name) and isinstance(n.ctx, ctx)}
    for st in stmts:
        if isinstance(st, ast.Assign):
            live |= names(st.value, ast.Load) - defined
            for t in st.targets:
                if not isinstance(t, ast.Name): live |= names(t, ast.Load) - defined
            defined |= {t.id for t in st.targets if isinstance(t, ast.Name)}
        elif isinstance(st, ast.If):
            live |= names(st.test, ast.Load) - defined
            l1, d1 = _live_in(st.body, defined); l2, d2 = _live_in(st.orelse, defined)
            live |= l1 | l2; defined = d1 & d2
        elif isinstance(st, ast.For):
            live |= names(st.iter, ast.Load) - defined
            l1, _ = _live_in(st.body, defined | names(st.target, ast.Store)); live |= l1
        else:
            live |= names(st, ast.Load) - defined
    return live, defined


# ------------------------------------------------------------------------------------------------ executor
class Executor:
    def __init__(self, src_root, contract, registry):
        self.c = contract
        self.src_root = src_root
        self.relpath, self.qualname = contract.target.split('::')
        self.src_path = os.path.join(src_root, self.relpath)
        self.source = open(self.src_path).read()
        self.tree = ast.parse(self.source)
        self.fn = find_def(self.tree, self.qualname)
        for d in self.fn.decorator_list:
            if ast.unparse(d) not in ('staticmethod', 'property', 'classmethod'):
                raise Unsupported(f'decorator {ast.unparse(d)}')
        self.registry = registry
        self.obligations = []          # (name, pc, claim, exact, kind)
        self.iteration_outcomes = {}   # loop ordinal -> [(Path, yields)]
        self.module_consts = {}
        for n in self.tree.body:
            if isinstance(n, ast.Assign) and len(n.targets) == 1 and isinstance(n.targets[0], ast.Name):
                self.module_consts[n.targets[0].id] = n.value
        self.stats = {'paths': 0, 'forks': 0}

    def site(self, e):
        return f'{self.qualname}:{getattr(e, "lineno", 0)}:{ast.unparse(e)[:70]}'

    def oblige(self, name, pc, claim, exact, kind='internal'):
        self.obligations.append((name, list(pc), claim, exact, kind))

    # ---- truthiness per sort
    def truthy(self, v):
        s = v.sort
        if s == 'bool': return v.t
        if s == 'int': return v.t != 0
        if s == 'str': return z3.Length(v.t) > 0
        if s == 'none': return z3.BoolVal(False)
        if s in ('dt', 'rec', 'func', 'excobj', 'td_nonzero') or s.startswith('enum:'): return z3.BoolVal(True)
        if s == 'td': return v.t != 0
        if s == 'digits': return z3.BoolVal(v.t[1] > 0) if isinstance(v.t[1], int) else v.t[1] > 0
        if s.startswith('opt:'): return z3.And(z3.Not(v.t[0]), self.truthy(v.t[1]))
        if s == 'J':
            j = v.t
            return z3.Or(z3.And(z3.Or(tag(j) == TAG['dict'], tag(j) == TAG['list']), jlen(j) > 0),
                         z3.And(tag(j) == TAG['str'], z3.Length(sof(j)) > 0),
                         z3.And(tag(j) == TAG['bool'], bof(j)), z3.And(tag(j) == TAG['int'], iof(j) != 0),
                         z3.And(tag(j) == TAG['float'], fnz(j)))
        if s == 'const': return z3.BoolVal(bool(v.x))
        if s in ('tuple', 'litlist'): return z3.BoolVal(len(v.x) > 0)
        if s == 'litdict': return z3.BoolVal(len(v.x) > 0)
        if s == 'seq': return v.t[1] > 0
        if s == 'set':
            if v.x and 'nonempty' in v.x: return v.x['nonempty']
            u = z3.FreshConst(S, 'u')
            return z3.Exists([u], v.t[u])
        if s == 'map': return z3.BoolVal(True) if v.x.get('always_truthy', True) else z3.Or(*v.x['pres'].values())
        if s == 'opaque':
            return z3.Bool(f'truthy({v.x})')
        if s == 'matchobj': return v.t
        if s in self.c.truthy_handlers: return self.c.truthy_handlers[s](self, v)
        raise Unsupported('truthy ' + s)

    def branch_on_truth(self, v, p):
        """yields (Path, bool) for the truthiness of v; truthiness of an opaque value is a free boolean (inexact)."""
        t = self.truthy(v)
        inexact = v.sort == 'opaque'
        for cond, outcome in ((t, True), (z3.Not(t), False)):
            q = p.fork(cond)
            if inexact: q.exact = False
            if sat(q.pc): yield q, outcome

    # ---- expressions: generators of (Path, Val|Exc)
    def ev(self, e, p):
        if self.c.expr_hooks and not isinstance(e, (ast.Constant, ast.Name)):
            h = self.c.expr_hooks.get(ast.unparse(e))
            if h is not None:
                yield from h(self, e, p); return
        m = getattr(self, 'ev_' + type(e).__name__, None)
        if not m: raise Unsupported(self.site(e) + ' ' + type(e).__name__)
        yield from m(e, p)

    def ev_seq(self, es, p, acc=()):
        if not es:
            yield p, list(acc); return
        for p1, v in self.ev(es[0], p):
            if isinstance(v, Exc): yield p1, v
            else: yield from self.ev_seq(es[1:], p1, acc + (v,))

    def ev_Constant(self, e, p):
        yield p, Const(e.value)

    def ev_JoinedStr(self, e, p):
        q = p.inexact(); yield q, Str(z3.FreshConst(S, 'fstr'))

    def ev_Name(self, e, p):
        if e.id in p.env: yield p, p.env[e.id]
        elif e.id in self.c.globals: yield p, self.c.globals[e.id]
        elif e.id in ('True', 'False', 'None'): yield p, Const({'True': True, 'False': False, 'None': None}[e.id])
        elif e.id in self.module_consts and isinstance(self.module_consts[e.id], ast.Constant):
            yield p, Const(self.module_consts[e.id].value)
        elif e.id in self.module_consts and isinstance(self.module_consts[e.id], (ast.List, ast.Tuple, ast.Set)) and \
                all(isinstance(x, ast.Constant) for x in self.module_consts[e.id].elts):
            yield p, Val('const', x=ast.literal_eval(self.module_consts[e.id]))     # module-level literal collection, re-read from source
        else: yield p, Val('opaque', x=e.id)

    def ev_Attribute(self, e, p):
        src = ast.unparse(e)
        if src in self.c.globals:
            yield p, self.c.globals[src]; return
        for p1, o in self.ev(e.value, p):
            if isinstance(o, Exc):
                yield p1, o; continue
            for p2, o2 in self.narrow(o, p1):
                yield from self.getattr_val(o2, e.attr, p2, self.site(e), src)

    def getattr_val(self, o, attr, p, site, src='?'):
        if (o.sort, attr) in self.registry.attrs:
            yield from self.registry.attrs[(o.sort, attr)](self, o, p, site)
        elif o.sort == 'rec' and attr in o.x: yield p, o.x[attr]
        elif o.sort == 'map':      # attribute access on a STIX object == key access (AttributeError if absent)
            present, value = o.x['present'](attr), o.x['value'](attr)
            q = p.fork(z3.Not(present))
            if sat(q.pc): yield q, Exc('AttributeError', site)
            q = p.fork(present)
            if sat(q.pc): yield q, value
        elif o.sort == 'none': yield p, Exc('AttributeError', site)
        elif o.sort == 'J':
            yield p, Exc('AttributeError', site)       # JSON values (dict/list/str/num/None) have no data attributes
        elif (o.sort, attr) in self.registry.attrs:
            yield from self.registry.attrs[(o.sort, attr)](self, o, p, site)
        elif o.sort in ('int', 'str', 'bool'): yield p, Exc('AttributeError', site)
        elif o.sort == 'opaque':
            yield p, Val('opaque', x=src)      # reading an attribute of an unmodelled object claims nothing: the value stays opaque
        else:
            q = p.inexact(); yield q, Val('opaque', x=src)

    def ev_UnaryOp(self, e, p):
        for p1, a in self.ev(e.operand, p):
            if isinstance(a, Exc): yield p1, a
            elif isinstance(e.op, ast.Not):
                if a.sort == 'opaque':
                    for q, b in self.branch_on_truth(a, p1): yield q, Bool(not b)
                else: yield p1, Bool(z3.Not(self.truthy(a)))
            elif isinstance(e.op, ast.USub) and a.sort == 'int': yield p1, Int(-a.t)
            elif isinstance(e.op, ast.USub) and a.sort == 'td': yield p1, Val('td', -a.t)
            else: raise Unsupported(self.site(e))

    def ev_BoolOp(self, e, p):
        is_and = isinstance(e.op, ast.And)

        def rec(vals, p):
            for p1, a in self.ev(vals[0], p):
                if isinstance(a, Exc) or len(vals) == 1:
                    yield p1, a; continue
                for q, b in self.branch_on_truth(a, p1):
                    if b != is_and: yield q, a           # short-circuit: and stops on falsy, or stops on truthy
                    else: yield from rec(vals[1:], q)
        yield from rec(e.values, p)

    def ev_IfExp(self, e, p):
        for p1, c in self.ev(e.test, p):
            if isinstance(c, Exc):
                yield p1, c; continue
            for q, b in self.branch_on_truth(c, p1):
                yield from self.ev(e.body if b else e.orelse, q)

    def ev_Compare(self, e, p):
        def rec(left, ops, comps, p, acc):
            for p1, right in self.ev(comps[0], p):
                if isinstance(right, Exc):
                    yield p1, right; continue
                for p2, r in self.compare(ops[0], left, right, p1, self.site(e)):
                    if isinstance(r, Exc):
                        yield p2, r; continue
                    if len(ops) > 1:   # chain short-circuit
                        q = p2.fork(z3.Not(r.t))
                        if sat(q.pc): yield q, FALSE
                        q = p2.fork(r.t)
                        if sat(q.pc): yield from rec(right, ops[1:], comps[1:], q, acc + [r.t])
                    else:
                        yield p2, Bool(z3.And(*(acc + [r.t])) if acc else r.t)
        for p1, left in self.ev(e.left, p):
            if isinstance(left, Exc): yield p1, left
            else: yield from rec(left, e.ops, e.comparators, p1, [])

    def narrow(self, v, p):
        """fork an Optional into None / inner alternatives: yields (Path, Val)"""
        if v.sort.startswith('opt:'):
            q = p.fork(v.t[0])
            if sat(q.pc): yield q, NONE
            q = p.fork(z3.Not(v.t[0]))
            if sat(q.pc): yield from self.narrow(v.t[1], q)
        else:
            yield p, v

    def compare(self, op, a, b, p, site):
        if isinstance(op, (ast.Is, ast.IsNot)):
            neg = isinstance(op, ast.IsNot)
            if b.sort == 'none':
                if a.sort.startswith('opt:'): t = a.t[0]
                elif a.sort == 'J': t = tag(a.t) == TAG['null']
                elif a.sort == 'opaque':
                    q = p.inexact(); yield q, Bool(z3.FreshConst(z3.BoolSort(), 'isnone')); return
                else: t = z3.BoolVal(a.sort == 'none')
            elif b.sort == 'bool' and (z3.is_true(b.t) or z3.is_false(b.t)):
                want = z3.is_true(b.t)
                if a.sort == 'bool': t = a.t == want
                elif a.sort.startswith('opt:') and a.t[1].sort == 'bool': t = z3.And(z3.Not(a.t[0]), a.t[1].t == want)
                elif a.sort == 'J': t = z3.And(tag(a.t) == TAG['bool'], bof(a.t) == want)
                elif a.sort == 'opaque':
                    q = p.inexact(); yield q, Bool(z3.FreshConst(z3.BoolSort(), 'isbool')); return
                else: t = z3.BoolVal(False)
            elif a.sort.startswith('enum:') and b.sort == a.sort: t = a.t == b.t
            elif a.sort.startswith('opt:enum:') and b.sort == a.sort[4:]: t = z3.And(z3.Not(a.t[0]), a.t[1].t == b.t)
            elif 'opaque' in (a.sort, b.sort):
                q = p.inexact(); yield q, Bool(z3.FreshConst(z3.BoolSort(), 'is')); return
            else: raise Unsupported(site + f' is {a.sort} {b.sort}')
            yield p, Bool(z3.Not(t) if neg else t); return
        if isinstance(op, (ast.In, ast.NotIn)):
            for q, r in self.contains(b, a, p, site):
                yield q, (r if isinstance(r, Exc) else Bool(z3.Not(r.t) if isinstance(op, ast.NotIn) else r.t))
            return
        for p1, a1 in self.narrow(a, p):
            for p2, b1 in self.narrow(b, p1):
                yield from self.compare_narrow(op, a1, b1, p2, site)

    def compare_narrow(self, op, a, b, p, site):
        eqop = isinstance(op, (ast.Eq, ast.NotEq))

        def fin(t): return Bool(z3.Not(t) if isinstance(op, ast.NotEq) else t)
        key = (a.sort, b.sort)
        if key in self.registry.compare:
            yield from self.registry.compare[key](self, op, a, b, p, site); return
        if eqop:
            if a.sort == b.sort and a.sort in ('int', 'str', 'bool', 'dt', 'td') or (a.sort.startswith('enum:') and a.sort == b.sort):
                yield p, fin(a.t == b.t); return
            if a.sort == 'none' or b.sort == 'none':
                if 'opaque' in key: q = p.inexact(); yield q, Bool(z3.FreshConst(z3.BoolSort(), 'eqnone')); return
                if 'J' in key:
                    j = a if a.sort == 'J' else b
                    yield p, fin(tag(j.t) == TAG['null']); return
                yield p, fin(z3.BoolVal(a.sort == b.sort)); return
            if a.sort == 'J' and b.sort == 'str':
                yield p, fin(z3.And(tag(a.t) == TAG['str'], sof(a.t) == b.t)); return
            if a.sort == 'J' and b.sort == 'bool':     # Python: True == 1, False == 0
                bi = z3.If(b.t, 1, 0)
                yield p, fin(z3.Or(z3.And(tag(a.t) == TAG['bool'], bof(a.t) == b.t), z3.And(tag(a.t) == TAG['int'], iof(a.t) == bi))); return
            if b.sort == 'J' and a.sort != 'J':
                yield from self.compare_narrow(op, b, a, p, site); return
            if {a.sort, b.sort} <= {'int', 'bool'}:
                ai = a.t if a.sort == 'int' else z3.If(a.t, 1, 0); bi = b.t if b.sort == 'int' else z3.If(b.t, 1, 0)
                yield p, fin(ai == bi); return
            if a.sort == 'digits' and b.sort == 'str' and z3.is_string_value(b.t) and b.t.as_string() == '':
                yield p, fin(z3.BoolVal(a.t[1] == 0)); return
            if a.sort in ('int', 'str', 'bool', 'dt', 'td') and b.sort in ('int', 'str', 'bool', 'dt', 'td'):
                yield p, fin(z3.BoolVal(False)); return
            if a.sort.startswith('enum:') and b.sort in ('str', 'int', 'bool', 'none'):
                yield p, fin(z3.BoolVal(False)); return        # plain Enum members never equal non-members
            if b.sort.startswith('enum:') and a.sort in ('str', 'int', 'bool', 'none'):
                yield p, fin(z3.BoolVal(False)); return
            if 'opaque' in key:
                q = p.inexact(); yield q, Bool(z3.FreshConst(z3.BoolSort(), 'opq_eq')); return
            raise Unsupported(site + f' eq {a.sort} {b.sort}')
        ords = {ast.Lt: lambda x, y: x < y, ast.LtE: lambda x, y: x <= y, ast.Gt: lambda x, y: x > y, ast.GtE: lambda x, y: x >= y}
        if a.sort == b.sort and a.sort in ('int', 'dt', 'td', 'real'):
            yield p, Bool(ords[type(op)](a.t, b.t)); return
        if {a.sort, b.sort} <= {'int', 'bool'}:
            ai = a.t if a.sort == 'int' else z3.If(a.t, 1, 0); bi = b.t if b.sort == 'int' else z3.If(b.t, 1, 0)
            yield p, Bool(ords[type(op)](ai, bi)); return
        if a.sort == 'str' and b.sort == 'str':
            lt = {ast.Lt: a.t < b.t, ast.LtE: a.t <= b.t, ast.Gt: b.t < a.t, ast.GtE: b.t <= a.t}[type(op)]
            yield p, Bool(lt); return
        if a.sort == 'none' or b.sort == 'none':
            yield p, Exc('TypeError', site); return
        if 'opaque' in key:
            q = p.inexact(); yield q, Bool(z3.FreshConst(z3.BoolSort(), 'opq_ord'))
            q = p.inexact(); yield q, Exc('TypeError', site, exact=False); return
        raise Unsupported(site + f' ord {a.sort} {b.sort}')

    def contains(self, c, item, p, site):
        key = (c.sort, item.sort)
        if key in self.registry.contains:
            yield from self.registry.contains[key](self, c, item, p, site); return
        if c.sort.startswith('opt:'):
            for q, c1 in self.narrow(c, p): yield from self.contains(c1, item, q, site)
            return
        if item.sort.startswith('opt:'):
            for q, i1 in self.narrow(item, p): yield from self.contains(c, i1, q, site)
            return
        if c.sort == 'none':
            yield p, Exc('TypeError', site); return
        if c.sort == 'const' and isinstance(c.x, (tuple, list, set, frozenset)):
            alts = []
            for xv in c.x:
                for _, r in self.compare_narrow(ast.Eq(), item, Const(xv), p, site): alts.append(r.t)
            yield p, Bool(z3.Or(*alts) if alts else z3.BoolVal(False)); return
        if c.sort in ('tuple', 'litlist'):
            alts = []
            for xv in c.x:
                for _, r in self.compare_narrow(ast.Eq(), item, xv, p, site):
                    if isinstance(r, Exc): raise Unsupported(site + ' in-tuple raising compare')
                    alts.append(r.t)
            yield p, Bool(z3.Or(*alts) if alts else z3.BoolVal(False)); return
        if c.sort == 'map' and item.sort == 'str' and z3.is_string_value(item.t):
            yield p, Bool(c.x['present'](item.t.as_string())); return
        if c.sort == 'set' and item.sort == 'str':
            yield p, Bool(c.t[item.t]); return
        if c.sort == 'set' and item.sort == 'J':          # membership of a JSON value in a set/dict of strings: hash lookup
            j = item.t; unh = z3.Or(tag(j) == TAG['list'], tag(j) == TAG['dict'])
            q = p.fork(unh)
            if sat(q.pc): yield q, Exc('TypeError', site)
            q = p.fork(z3.Not(unh))
            if sat(q.pc): yield q, Bool(z3.And(tag(j) == TAG['str'], c.t[sof(j)]))
            return
        if c.sort == 'litdict' and item.sort == 'str' and isinstance(c.x, dict):
            yield p, Bool(z3.Or(*[item.t == z3.StringVal(k) for k in c.x]) if c.x else z3.BoolVal(False)); return
        if c.sort == 'J' and item.sort == 'str':
            j = c.t
            for cond, res in [(tag(j) == TAG['dict'], Bool(has(j, item.t))), (tag(j) == TAG['str'], Bool(z3.Contains(sof(j), item.t))),
                              (tag(j) == TAG['list'], None),
                              (z3.Or(*[tag(j) == TAG[t] for t in ('null', 'bool', 'int', 'float')]), Exc('TypeError', site))]:
                q = p.fork(cond)
                if not sat(q.pc): continue
                if res is None:
                    q.exact = False; res = Bool(z3.FreshConst(z3.BoolSort(), 'list_in'))
                yield q, res
            return
        if c.sort == 'str' and item.sort == 'str':
            yield p, Bool(z3.Contains(c.t, item.t)); return
        if c.sort == 'str' and item.sort == 'J':
            q = p.fork(tag(item.t) == TAG['str'])
            if sat(q.pc): yield q, Bool(z3.Contains(c.t, sof(item.t)))
            q = p.fork(tag(item.t) != TAG['str'])
            if sat(q.pc): yield q, Exc('TypeError', site)
            return
        if c.sort == 'opaque' and item.sort == 'J':        # membership in a registry dict: unhashable keys raise
            j = item.t; unh = z3.Or(tag(j) == TAG['list'], tag(j) == TAG['dict'])
            q = p.fork(unh)
            if sat(q.pc): yield q, Exc('TypeError', site)
            q = p.inexact(z3.Not(unh))
            if sat(q.pc): yield q, Bool(z3.FreshConst(z3.BoolSort(), 'reg_in'))
            return
        if c.sort == 'opaque' or item.sort == 'opaque':
            q = p.inexact(); yield q, Bool(z3.FreshConst(z3.BoolSort(), 'opq_in')); return
        raise Unsupported(site + f' in {c.sort} {item.sort}')

    def ev_Subscript(self, e, p):
        if isinstance(e.slice, ast.Slice):
            for p1, vs in self.ev_seq([e.value], p):
                if isinstance(vs, Exc):
                    yield p1, vs; continue
                o = vs[0]; site = self.site(e)
                h = self.registry.slices.get(o.sort)
                if h is None: raise Unsupported(site + f' slice of {o.sort}')
                yield from h(self, o, e.slice, p1, site)
            return
        if ast.unparse(e) in self.c.globals:
            yield p, self.c.globals[ast.unparse(e)]; return
        for p1, vs in self.ev_seq([e.value, e.slice], p):
            if isinstance(vs, Exc):
                yield p1, vs; continue
            site = self.site(e)
            for p2, o in self.narrow(vs[0], p1):
                yield from self.subscript(o, vs[1], p2, site, ast.unparse(e))

    def subscript(self, o, k, p, site, src='?'):
        key = (o.sort, k.sort)
        if key in self.registry.subscript:
            yield from self.registry.subscript[key](self, o, k, p, site); return
        if o.sort == 'none':
            yield p, Exc('TypeError', site); return
        if o.sort == 'J' and k.sort == 'str':
            j = o.t
            for cond, res in [(z3.And(tag(j) == TAG['dict'], has(j, k.t)), JV(get(j, k.t))),
                              (z3.And(tag(j) == TAG['dict'], z3.Not(has(j, k.t))), Exc('KeyError', site)),
                              (tag(j) != TAG['dict'], Exc('TypeError', site))]:
                q = p.fork(cond)
                if sat(q.pc): yield q, res
        elif o.sort == 'J' and k.sort == 'int':
            j = o.t
            inb = z3.And(k.t < jlen(j), k.t >= -jlen(j))
            idx = z3.If(k.t < 0, k.t + jlen(j), k.t)
            for cond, res in [(z3.And(tag(j) == TAG['list'], inb), JV(elem(j, idx))),
                              (z3.And(tag(j) == TAG['list'], z3.Not(inb)), Exc('IndexError', site)),
                              (z3.And(tag(j) == TAG['str'], inb), None),
                              (z3.And(tag(j) == TAG['str'], z3.Not(inb)), Exc('IndexError', site)),
                              (tag(j) == TAG['dict'], Exc('KeyError', site)),
                              (z3.Or(*[tag(j) == TAG[t] for t in ('null', 'bool', 'int', 'float')]), Exc('TypeError', site))]:
                q = p.fork(cond)
                if not sat(q.pc): continue
                if res is None:
                    q.exact = False; res = fresh('J', 'ch')
                yield q, res
        elif o.sort == 'map' and k.sort == 'str' and z3.is_string_value(k.t):
            name = k.t.as_string()
            q = p.fork(z3.Not(o.x['present'](name)))
            if sat(q.pc): yield q, Exc('KeyError', site)
            q = p.fork(o.x['present'](name))
            if sat(q.pc): yield q, o.x['value'](name)
        elif o.sort in ('tuple', 'litlist') and k.sort == 'int' and z3.is_int_value(k.t):
            i = k.t.as_long()
            if -len(o.x) <= i < len(o.x): yield p, o.x[i]
            else: yield p, Exc('IndexError', site)
        elif o.sort == 'litdict' and isinstance(o.x, dict) and k.sort == 'str' and z3.is_string_value(k.t):
            if k.t.as_string() in o.x: yield p, o.x[k.t.as_string()]
            else: yield p, Exc('KeyError', site)
        elif o.sort == 'seq' and k.sort == 'int':
            f, n = o.t
            inb = z3.And(k.t < n, k.t >= -n)
            q = p.fork(inb)
            if sat(q.pc): yield q, f(z3.If(k.t < 0, k.t + n, k.t))
            q = p.fork(z3.Not(inb))
            if sat(q.pc): yield q, Exc('IndexError', site)
        elif o.sort == 'str' and k.sort == 'int':          # s[i]: one character, IndexError outside -len..len-1
            n = z3.Length(o.t); inb = z3.And(k.t < n, k.t >= -n)
            q = p.fork(inb)
            if sat(q.pc): yield q, Str(z3.SubString(o.t, z3.If(k.t < 0, k.t + n, k.t), 1))
            q = p.fork(z3.Not(inb))
            if sat(q.pc): yield q, Exc('IndexError', site)
        elif o.sort == 'opaque':
            q = p.inexact(); yield q, Val('opaque', x=src)
            q = p.inexact(); yield q, Exc('<any>', site, exact=False)
        else:
            raise Unsupported(site + f' subscript {o.sort}[{k.sort}]')

    def ev_BinOp(self, e, p):
        for p0, vs0 in self.ev_seq([e.left, e.right], p):
            if isinstance(vs0, Exc):
                yield p0, vs0; continue
            if vs0[0].sort == 'str' and isinstance(e.op, ast.Mod):       # "fmt" % anything: only builds a message
                q = p0.inexact(); yield q, Str(z3.FreshConst(S, 'fmt')); continue
            for pa, a in self.narrow(vs0[0], p0):
                for pb, b in self.narrow(vs0[1], pa):
                    yield from self.binop(a, b, type(e.op), pb, e)

    def binop(self, a, b, op, p1, e):
        site = self.site(e)
        key = (a.sort, op.__name__, b.sort)
        if key in self.registry.binops:
            yield from self.registry.binops[key](self, a, b, p1, site); return
        if a.sort == 'none' or b.sort == 'none':
            yield p1, Exc('TypeError', site); return
        if a.sort == 'int' and b.sort == 'int':
            if op is ast.Add: yield p1, Int(a.t + b.t)
            elif op is ast.Sub: yield p1, Int(a.t - b.t)
            elif op is ast.Mult: yield p1, Int(a.t * b.t)
            elif op in (ast.FloorDiv, ast.Mod):
                q = p1.fork(b.t == 0)
                if sat(q.pc): yield q, Exc('ZeroDivisionError', site)
                q = p1.fork(b.t != 0)
                if sat(q.pc):
                    fd, fm = floordiv(a.t, b.t)
                    yield q, Int(fd if op is ast.FloorDiv else fm)
            else: raise Unsupported(site)
        elif a.sort == 'dt' and b.sort == 'dt' and op is ast.Sub: yield p1, Val('td', a.t - b.t)
        elif a.sort == 'dt' and b.sort == 'td' and op in (ast.Add, ast.Sub):
            yield p1, Val('dt', a.t + b.t if op is ast.Add else a.t - b.t, x=a.x)
        elif a.sort == 'td' and b.sort == 'td' and op in (ast.Add, ast.Sub):
            yield p1, Val('td', a.t + b.t if op is ast.Add else a.t - b.t)
        elif a.sort == 'str' and b.sort == 'str' and op is ast.Add: yield p1, Str(z3.Concat(a.t, b.t))
        elif a.sort == 'set' and b.sort == 'set' and op in (ast.Sub, ast.BitAnd, ast.BitOr):
            u = z3.FreshConst(S, 'u')
            body = {ast.Sub: z3.And(a.t[u], z3.Not(b.t[u])), ast.BitAnd: z3.And(a.t[u], b.t[u]), ast.BitOr: z3.Or(a.t[u], b.t[u])}[op]
            yield p1, SetV(z3.Lambda([u], body))
        elif 'opaque' in (a.sort, b.sort):
            q = p1.inexact(); yield q, Val('opaque', x=ast.unparse(e))
            q = p1.inexact(); yield q, Exc('<any>', site, exact=False)
        else: raise Unsupported(site + f' {a.sort} {op.__name__} {b.sort}')

    def ev_Dict(self, e, p):
        if any(k is None for k in e.keys): raise Unsupported(self.site(e) + ' dict unpacking')
        if all(isinstance(k, ast.Constant) for k in e.keys):
            for p1, vs in self.ev_seq(e.values, p):
                if isinstance(vs, Exc): yield p1, vs
                else: yield p1, Val('litdict', x=dict(zip([k.value for k in e.keys], vs)))
            return
        for p1, vs in self.ev_seq(list(e.keys) + list(e.values), p):
            if isinstance(vs, Exc): yield p1, vs
            else:
                n = len(e.keys); yield p1, Val('litdict', x=list(zip(vs[:n], vs[n:])))

    def ev_Tuple(self, e, p):
        if any(isinstance(x, ast.Starred) for x in e.elts): raise Unsupported(self.site(e) + ' starred')
        for p1, vs in self.ev_seq(e.elts, p):
            yield p1, (vs if isinstance(vs, Exc) else Val('tuple' if isinstance(e, ast.Tuple) else 'litlist', x=list(vs)))
    ev_List = ev_Tuple

    def ev_Set(self, e, p):
        for p1, vs in self.ev_seq(e.elts, p):
            if isinstance(vs, Exc):
                yield p1, vs; continue
            t = EMPTY
            for v in vs:
                if v.sort != 'str': raise Unsupported(self.site(e) + ' set literal of ' + v.sort)
                t = z3.Store(t, v.t, True)
            yield p1, SetV(t)

    def ev_Lambda(self, e, p):
        yield p, Val('func', x=e)

    def ev_GeneratorExp(self, e, p):
        h = self.c.comprehensions.get(ast.unparse(e)) or self.c.comprehensions.get('*') or self.registry.comprehension
        if h is None: raise Unsupported(self.site(e) + ' comprehension')
        yield from h(self, e, p)
    ev_ListComp = ev_GeneratorExp
    ev_SetComp = ev_GeneratorExp
    ev_DictComp = ev_GeneratorExp

    def ev_Yield(self, e, p):
        for q, v in self.ev(e.value, p):
            if isinstance(v, Exc): yield q, v
            else:
                q = q.fork(); q.ghost = dict(q.ghost, yields=list(q.ghost.get('yields', [])) + [v]); yield q, NONE

    def ev_Call(self, e, p):
        fname = ast.unparse(e.func); site = self.site(e)
        if any(isinstance(a, ast.Starred) for a in e.args) or any(k.arg is None for k in e.keywords):
            if fname not in self.c.handlers and fname not in self.registry.funcs:
                raise Unsupported(site + ' starred call')
        h = self.c.handlers.get(fname) or self.registry.funcs.get(fname)
        if h is not None:
            yield from h(self, e, p, site); return
        if fname.split('.')[-1] in EXC_PARENTS and (isinstance(e.func, ast.Name) or ast.unparse(e.func.value) in ('exceptions', 'stix2.exceptions', 'builtins', 'json')):
            ex = p.exact                     # exception construction: the message never influences control flow
            for p1, vs in self.ev_seq(list(e.args) + [k.value for k in e.keywords], p):
                if isinstance(vs, Exc):
                    yield p1, vs; continue
                p1 = p1.fork(); p1.exact = ex
                yield p1, Val('excobj', x=fname if fname in EXC_PARENTS else fname.split('.')[-1])
            return
        if isinstance(e.func, ast.Attribute):
            mname = '.' + e.func.attr
            h = self.c.handlers.get(mname)
            if h is not None:
                yield from h(self, e, p, site); return
            # method call: evaluate receiver, dispatch on its sort
            for p1, recv0 in self.ev(e.func.value, p):
                if isinstance(recv0, Exc):
                    yield p1, recv0; continue
                for p2, recv in self.narrow(recv0, p1):
                    if recv.sort == 'none':
                        yield p2, Exc('AttributeError', site); continue
                    h = self.registry.methods.get((mname, recv.sort)) or self.registry.methods.get((mname, '*'))
                    if h is None:
                        if recv.sort == 'J':
                            raise Unsupported(site + f' method {mname} on J')
                        yield from self.unknown_call(e, p2, site, fname); continue
                    for p3, args in self.ev_seq(list(e.args), p2):
                        if isinstance(args, Exc):
                            yield p3, args; continue
                        yield from h(self, recv, args, e, p3, site)
            return
        last = fname.split('.')[-1]
        if fname in EXC_PARENTS or last in EXC_PARENTS:
            ex = p.exact                     # building the message never influences control flow: keep exactness
            for p1, vs in self.ev_seq(list(e.args) + [k.value for k in e.keywords], p):
                if isinstance(vs, Exc):
                    yield p1, vs; continue
                p1 = p1.fork(); p1.exact = ex
                yield p1, Val('excobj', x=fname if fname in EXC_PARENTS else last)
            return
        yield from self.unknown_call(e, p, site, fname)

    def unknown_call(self, e, p, site, fname):
        """unknown callee: opaque result, may raise anything, path no longer exact; modelled mutable arguments are havocked"""
        self.stats.setdefault('unknown_calls', set()).add(fname)
        for p1, vs in self.ev_seq([a for a in e.args if not isinstance(a, ast.Starred)] + [k.value for k in e.keywords], p):
            if isinstance(vs, Exc):
                yield p1, vs; continue
            q = p1.inexact()
            for a in e.args:
                if isinstance(a, ast.Name) and a.id in q.env and q.env[a.id].sort in ('set', 'rec', 'seq', 'map'):
                    q.env[a.id] = Val('opaque', x=a.id + "'")
            yield q, Val('opaque', x=fname + '()')
            q = p1.inexact(); yield q, Exc('<any>', site, exact=False)

    # ---- statements: lists of (kind, Path, value) with kind in fall/return/raise/break/continue
    def block(self, stmts, paths):
        outs = []; live = list(paths)
        for st in stmts:
            nxt = []
            for p in live:
                for o in self.stmt(st, p):
                    if o[0] == 'fall': nxt.append(o[1])
                    else: outs.append(o)
            live = nxt
            if len(live) + len(outs) > self.c.max_paths:
                raise Unsupported(f'{self.qualname}: more than {self.c.max_paths} paths')
        return outs + [('fall', p, None) for p in live]

    def stmt(self, st, p):
        cut = self.c.cut
        if cut is not None and cut(st):
            return [('cut', p, None)]
        m = getattr(self, 'st_' + type(st).__name__, None)
        if not m: raise Unsupported(f'{self.qualname}:{st.lineno} stmt {type(st).__name__}')
        return m(st, p)

    def st_Expr(self, st, p):
        if isinstance(st.value, ast.Constant): return [('fall', p, None)]
        return [('raise', q, v) if isinstance(v, Exc) else ('fall', q, None) for q, v in self.ev(st.value, p)]

    def st_Pass(self, st, p): return [('fall', p, None)]
    def st_Break(self, st, p): return [('break', p, None)]
    def st_Continue(self, st, p): return [('continue', p, None)]
    def st_Import(self, st, p): return [('fall', p, None)]
    st_ImportFrom = st_Import

    def st_Assert(self, st, p):
        res = []
        for q, c in self.ev(st.test, p):
            if isinstance(c, Exc):
                res.append(('raise', q, c)); continue
            for q2, b in self.branch_on_truth(c, q):
                res.append(('fall', q2, None) if b else ('raise', q2, Exc('AssertionError', self.site(st))))
        return res

    def st_Assign(self, st, p):
        res = []
        for q, v in self.ev(st.value, p):
            if isinstance(v, Exc):
                res.append(('raise', q, v)); continue
            q = q.fork()
            ok = True
            for tgt in st.targets:
                r = self.assign(tgt, v, q)
                if isinstance(r, list):
                    res += r; ok = False
            if ok: res.append(('fall', q, None))
        return res

    def st_Delete(self, st, p):
        h = getattr(self.c, 'delete_handler', None)
        if h is None: raise Unsupported(f'{self.qualname}:{st.lineno} del')
        outs = [('fall', p, None)]
        for tgt in st.targets:
            nxt = []
            for kind, q, v in outs:
                if kind != 'fall': nxt.append((kind, q, v)); continue
                nxt += h(self, tgt, q)
            outs = nxt
        return outs

    def st_AnnAssign(self, st, p):
        if st.value is None: return [('fall', p, None)]
        return self.st_Assign(ast.Assign(targets=[st.target], value=st.value, lineno=st.lineno), p)

    def st_AugAssign(self, st, p):
        load = ast.Name(id=st.target.id, ctx=ast.Load(), lineno=st.lineno, col_offset=0) if isinstance(st.target, ast.Name) else None
        if load is None: raise Unsupported(f'{self.qualname}:{st.lineno} augassign target')
        return self.st_Assign(ast.Assign(targets=[st.target], value=ast.BinOp(left=load, op=st.op, right=st.value, lineno=st.lineno, col_offset=0), lineno=st.lineno), p)

    def assign(self, tgt, v, q):
        if isinstance(tgt, ast.Name):
            ls = self.c.local_sorts.get(tgt.id)
            if ls: v = self.c.lift_local(ls, v)
            q.env[tgt.id] = v
        elif isinstance(tgt, ast.Attribute) and isinstance(tgt.value, ast.Name) and q.env.get(tgt.value.id, NONE).sort == 'rec':
            rec = q.env[tgt.value.id]; q.env[tgt.value.id] = Val('rec', x=dict(rec.x, **{tgt.attr: v}))
            if isinstance(rec.x.get('_param'), str):
                self.oblige(f'frame: the argument `{rec.x["_param"]}` is not modified (attribute store `{ast.unparse(tgt)}` at line {tgt.lineno})', q.pc, z3.BoolVal(False), q.exact, 'frame')
        elif isinstance(tgt, ast.Subscript):
            h = self.c.store_handler
            if h is None:
                base = tgt.value
                while isinstance(base, (ast.Subscript, ast.Attribute)): base = base.value
                if isinstance(base, ast.Name) and q.env.get(base.id, NONE).sort not in ('opaque', 'none'):
                    raise Unsupported(f'{self.qualname}:{tgt.lineno} store into modelled {ast.unparse(tgt)}')
                # store into an unmodelled container: no modelled state changes
            else:
                return h(self, tgt, v, q)
        elif isinstance(tgt, (ast.Tuple, ast.List)) and v.sort in ('tuple', 'litlist') and len(tgt.elts) == len(v.x):
            for t1, v1 in zip(tgt.elts, v.x): self.assign(t1, v1, q)
        elif isinstance(tgt, (ast.Tuple, ast.List)) and v.sort == 'opaque':
            q.exact = False
            for t1 in tgt.elts: self.assign(t1, Val('opaque', x=ast.unparse(t1)), q)
        elif isinstance(tgt, ast.Attribute):
            pass   # attribute store on an unmodelled object
        else:
            raise Unsupported(f'{self.qualname}:{tgt.lineno} assign target {ast.unparse(tgt)} := {v.sort}')

    def st_Return(self, st, p):
        if st.value is None: return [('return', p, NONE)]
        return [('raise', q, v) if isinstance(v, Exc) else ('return', q, v) for q, v in self.ev(st.value, p)]

    def st_Raise(self, st, p):
        res = []
        if st.exc is None:
            return [('raise', p, p.ghost['handling'])]
        for q, v in self.ev(st.exc, p):
            if isinstance(v, Exc): res.append(('raise', q, v))
            elif v.sort == 'excobj': res.append(('raise', q, Exc(v.x, f'{self.qualname}:{st.lineno}:raise')))
            elif v.sort == 'opaque' and isinstance(st.exc, ast.Name) and st.exc.id in EXC_PARENTS:
                res.append(('raise', q, Exc(st.exc.id, f'{self.qualname}:{st.lineno}:raise')))
            else: raise Unsupported(f'{self.qualname}:{st.lineno} raise {v}')
        return res

    def st_If(self, st, p):
        res = []
        for q, c in self.ev(st.test, p):
            if isinstance(c, Exc):
                res.append(('raise', q, c)); continue
            branches = list(self.branch_on_truth(c, q))
            if len(branches) == 2 and getattr(self.c, 'merge_set_branches', False):
                outs = [(b, q2, self.block(st.body if b else st.orelse, [q2])) for q2, b in branches]
                m = self._merge_set_branches(q, outs)
                if m is not None: res.append(m)
                else:
                    for _, _, o in outs: res += o
                continue
            for q2, b in branches:
                res += self.block(st.body if b else st.orelse, [q2])
        return res

    def _merge_set_branches(self, q, outs):
        """state merging for a two-way conditional whose branches both fall through, add no facts and differ only in set-valued locals:
        one path with if-then-else set values instead of two (same semantics, fewer paths)"""
        if any(len(o) != 1 or o[0][0] != 'fall' for _, _, o in outs): return None
        (b1, e1, [(_, r1, _)]), (b2, e2, [(_, r2, _)]) = outs
        if r1.exact != r2.exact or r1.exact != q.exact or r1.ghost != r2.ghost: return None
        if len(e1.pc) != len(q.pc) + 1 or len(e2.pc) != len(q.pc) + 1 or set(r1.env) != set(r2.env): return None
        cond = e1.pc[-1] if b1 else e2.pc[-1]
        rt, rf = (r1, r2) if b1 else (r2, r1)
        n = len(q.pc) + 1
        # facts a branch added: (P and c and X1) or (P and not c and X2)  ==  P and (c -> X1) and (not c -> X2)
        extra = [z3.Implies(cond, f) for f in rt.pc[n:]] + [z3.Implies(z3.Not(cond), f) for f in rf.pc[n:]]
        env = {}
        for k in rt.env:
            a, b = rt.env[k], rf.env[k]
            if a is b: env[k] = a
            elif a.sort == 'set' and b.sort == 'set': env[k] = SetV(z3.If(cond, a.t, b.t))
            else: return None
        return ('fall', Path(env, list(q.pc) + extra, q.exact, rt.ghost), None)

    def st_Try(self, st, p):
        if st.finalbody: raise Unsupported(f'{self.qualname}:{st.lineno} try/finally')
        res = []
        for kind, q, v in self.block(st.body, [p]):
            if kind != 'raise':
                if kind == 'fall' and st.orelse: res += self.block(st.orelse, [q])
                else: res.append((kind, q, v))
                continue
            caught = False
            for h in st.handlers:
                names = [ast.unparse(x) for x in h.type.elts] if isinstance(h.type, ast.Tuple) else [ast.unparse(h.type)] if h.type else ['BaseException']
                names = [n if n in EXC_PARENTS else n.split('.')[-1] for n in names]
                if v.name == '<any>':
                    # unknown exception: may or may not be caught by this handler, unless it catches everything
                    q2 = q.inexact(); q2.ghost = dict(q2.ghost, handling=v)
                    if h.name: q2.env[h.name] = Val('excobj', x='<any>')
                    res += self.block(h.body, [q2])
                    if any(n in ('Exception', 'BaseException') for n in names):
                        caught = True; break
                    continue
                if any(is_subexc(v.name, n) for n in names):
                    q2 = q.fork(); q2.ghost = dict(q2.ghost, handling=v)
                    if h.name: q2.env[h.name] = Val('excobj', x=v.name)
                    res += self.block(h.body, [q2]); caught = True; break
            if not caught: res.append((kind, q, v))
        return res

    def st_With(self, st, p):
        """`with cm as name: body` for context managers that do not swallow exceptions (A): evaluate, bind, run the body"""
        paths = [p]; res = []
        for item in st.items:
            nxt = []
            for q in paths:
                for q1, v in self.ev(item.context_expr, q):
                    if isinstance(v, Exc):
                        res.append(('raise', q1, v)); continue
                    if item.optional_vars is not None:
                        q1 = q1.fork(); self.assign(item.optional_vars, v, q1)
                    nxt.append(q1)
            paths = nxt
        return res + self.block(st.body, paths)

    WHILE_CAP = 600

    def st_While(self, st, p):
        """`while` is executed by unrolling, and only as long as the path condition *decides* the loop condition at every iteration (both for
        one state would mean an iteration count that depends on symbolic data: that needs an invariant, which this rule does not take ->
        Unsupported, the function is undecided).  Complete for loops whose trip count is fixed by the case the contract was instantiated for."""
        if st.orelse: raise Unsupported(f'{self.qualname}:{st.lineno} while/else')
        res = []; live = [p]; rounds = 0
        while live:
            rounds += 1
            if rounds > self.WHILE_CAP: raise Unsupported(f'{self.qualname}:{st.lineno} while: more than {self.WHILE_CAP} iterations')
            nxt = []
            for pl in live:
                for q, c in self.ev(st.test, pl):
                    if isinstance(c, Exc):
                        res.append(('raise', q, c)); continue
                    t = z3.simplify(self.truthy(c))
                    if z3.is_true(t): go = True
                    elif z3.is_false(t): go = False
                    else:
                        can_t, can_f = sat(q.pc + [t], 5000), sat(q.pc + [z3.Not(t)], 5000)
                        if can_t and can_f: raise Unsupported(f'{self.qualname}:{st.lineno} while: condition not decided by the path condition (needs an invariant)')
                        go = can_t
                    if not go:
                        res.append(('fall', q, None)); continue
                    for kind, r, v in self.block(st.body, [q.fork()]):
                        if kind in ('fall', 'continue'): nxt.append(r)
                        elif kind == 'break': res.append(('fall', r, None))
                        else: res.append((kind, r, v))
            live = nxt
        return res

    def st_For(self, st, p):
        res = []
        ordinal = loop_ordinal(self.fn, st)
        spec = self.c.loops.get(ordinal, {'kind': 'map'})
        if st.orelse: raise Unsupported(f'{self.qualname}:{st.lineno} for/else')
        tnames = {n.id for n in ast.walk(st.target) if isinstance(n, ast.Name)}
        assigned = _mutated_names(st.body) | tnames
        for q, it0 in self.ev(st.iter, p):
            if isinstance(it0, Exc):
                res.append(('raise', q, it0)); continue
            for q, it in self.iterable(it0, q, self.site(st.iter)):
                if isinstance(it, Exc):
                    res.append(('raise', q, it)); continue
                if it.sort in ('tuple', 'litlist'):       # literal sequence: unroll
                    live = [q]
                    for item in it.x:
                        nxt = []
                        for pl in live:
                            pl = pl.fork(); self.assign(st.target, item, pl)
                            for kind, r, v in self.block(st.body, [pl]):
                                if kind in ('fall', 'continue'): nxt.append(r)
                                elif kind == 'break': res.append(('fall', r, None))
                                else: res.append((kind, r, v))
                        live = nxt
                    res += [('fall', pl, None) for pl in live]
                    continue
                if it.sort != 'seq': raise Unsupported(f'{self.qualname}:{st.lineno} for over {it.sort}')
                n = it.t[1]; i = z3.FreshConst(z3.IntSort(), 'i')

                def havoc(path):
                    for name in assigned - tnames:
                        if name in path.env:
                            v = path.env[name]
                            path.env[name] = self.c.havoc_local(name, v) if v.sort not in ('opaque',) else v
                if spec['kind'] == 'map':
                    # iteration-local body: verify an arbitrary iteration; loop-carried reads are rejected
                    carried = _live_in(st.body, tnames)[0] & (assigned - tnames)
                    if carried: raise Unsupported(f'{self.qualname}:{st.lineno} loop-carried {sorted(carried)} needs an invariant')
                    qi = q.fork(0 <= i, i < n); self.assign(st.target, it.t[0](i), qi)
                    qi.ghost = dict(qi.ghost, yields=[], iter_index=i)
                    for kind, r, v in self.block(st.body, [qi]):
                        if kind in ('fall', 'continue'):
                            self.iteration_outcomes.setdefault(ordinal, []).append((r, list(r.ghost.get('yields', []))))
                        elif kind == 'break':
                            r = r.fork(); r.ghost = dict(q.ghost); res.append(('fall', r, None))
                        else: res.append((kind, r, v))
                    qa = q.fork(n >= 0); havoc(qa); res.append(('fall', qa, None))
                else:
                    inv = spec['inv']
                    self.oblige(f'loop{ordinal}.invariant.init', q.pc, inv(self, q.env, z3.IntVal(0), it), q.exact)
                    qi = q.fork(); havoc(qi); qi.pc += [0 <= i, i < n, inv(self, qi.env, i, it)]
                    self.assign(st.target, it.t[0](i), qi)
                    qi.ghost = dict(qi.ghost, iter_index=i)
                    qi.env[f'@loop{ordinal}'] = Int(i)        # ghost index, readable by the invariants of nested loops
                    for kind, r, v in self.block(st.body, [qi]):
                        if kind in ('fall', 'continue'):
                            self.oblige(f'loop{ordinal}.invariant.preserved', r.pc, inv(self, r.env, i + 1, it), r.exact)
                        elif kind == 'break':
                            if 'on_break' in spec: r = r.fork(spec['on_break'](self, r.env, i, it))
                            res.append(('fall', r, None))
                        else: res.append((kind, r, v))
                    qa = q.fork(); havoc(qa); qa.pc += [n >= 0, inv(self, qa.env, n, it)]
                    res.append(('fall', qa, None))
        return res

    def iterable(self, it, p, site):
        """normalise an iterated value to a 'seq' (or literal tuple/list); yields (Path, Val|Exc)"""
        if it.sort in ('seq', 'tuple', 'litlist'):
            yield p, it
        elif it.sort == 'const' and isinstance(it.x, (tuple, list)):
            yield p, Val('tuple', x=[Const(x) for x in it.x])
        elif it.sort == 'J':
            j = it.t
            q = p.fork(tag(j) == TAG['list'], jlen(j) >= 0)
            if sat(q.pc): yield q, Seq(lambda i: JV(elem(j, i)), jlen(j))
            q = p.fork(tag(j) == TAG['dict'], jlen(j) >= 0)
            if sat(q.pc):
                kf = z3.Function(f'keyat!{_counter[0]}', z3.IntSort(), S); _counter[0] += 1
                ii = z3.Int('ii!k')
                q.pc.append(z3.ForAll([ii], z3.Implies(z3.And(0 <= ii, ii < jlen(j)), has(j, kf(ii)))))
                yield q, Seq(lambda i: Str(kf(i)), jlen(j))
            q = p.fork(tag(j) == TAG['str'])
            if sat(q.pc):
                q.exact = False; yield q, Seq(lambda i: fresh('str', 'ch'), z3.Length(sof(j)))
            q = p.fork(z3.Or(*[tag(j) == TAG[t] for t in ('null', 'bool', 'int', 'float')]))
            if sat(q.pc): yield q, Exc('TypeError', site)
        elif it.sort == 'none' or it.sort in ('int', 'bool'):
            yield p, Exc('TypeError', site)
        elif it.sort.startswith('opt:'):
            for q, v in self.narrow(it, p): yield from self.iterable(v, q, site)
        elif it.sort == 'opaque':          # unknown iterable: arbitrary length, opaque elements (may also fail to iterate)
            q = p.fork() if getattr(self.c, 'exact_opaque_iteration', False) else p.inexact()
            n = z3.FreshConst(z3.IntSort(), 'n_iter'); q.pc.append(n >= 0)
            yield q, Seq(lambda i, nm=str(it.x): Val('opaque', x=f'{nm}[i]'), n)
        elif it.sort in self.registry.iterables:
            yield from self.registry.iterables[it.sort](self, it, p, site)
        else:
            raise Unsupported(site + f' iterate {it.sort}')

    # ---- top level
    def run(self):
        sig, vararg, kwarg = real_signature(self.fn)
        env = {}
        for name, default, kind in sig:
            s = self.c.params.get(name, 'opaque')
            env[name] = named(s, name)
        for extra in (vararg, kwarg):
            if extra: env[extra] = named(self.c.params.get(extra, 'opaque'), extra)
        missing = set(self.c.params) - set(env)
        if missing: raise Unsupported(f'{self.qualname}: contract names parameters {sorted(missing)} that the real signature lacks')
        for name, v in env.items():          # identity of record arguments (frame: an attribute store through any alias of the argument is a write to the caller's object)
            if name != 'self' and isinstance(v, Val) and v.sort == 'rec' and isinstance(v.x, dict) and '_param' not in v.x: env[name] = Val('rec', v.t, x=dict(v.x, _param=name))
        self.params = dict(env)
        p0 = Path(env)
        for name, r in self.c.requires:
            p0.pc.append(r(self.params))
        p0.ghost.update(self.c.ghost_init)
        if not sat(p0.pc): raise Unsupported(f'{self.qualname}: precondition unsatisfiable (vacuous contract)')
        outs = self.block(self.fn.body, [p0])
        outs = [('return', p, NONE) if k == 'fall' else (k, p, v) for k, p, v in outs]
        self.stats['paths'] = len(outs)
        return outs


def floordiv(a, b):
    """Python floor division / modulo from z3's Euclidean-style div/mod (z3: remainder always >= 0)."""
    d, m = a / b, a % b
    fd = z3.If(z3.And(b < 0, m != 0), d - 1, d)
    return fd, a - fd * b
