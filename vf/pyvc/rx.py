"""Python `re` patterns -> z3 regular languages with the exact semantics of re.match / re.fullmatch.

The pattern is parsed with the parser `re` itself uses (re._parser); every character-class-like node is made exact *by
construction*: it is compiled on its own with re._compiler under the pattern's flags and evaluated on every code point
once (so re.I Unicode folding, \\d = Unicode Nd, re.A etc. are whatever CPython really does).  `^` only at the start,
`$` = end or before one trailing newline, `\\Z` = end; re.match is not anchored at the end.  Back-references and
look-around are unsupported (=> undecided).  z3's character sort stops at U+2FFFF; the class tables are also used
natively for the code points above it."""
import itertools, re
import re._parser as sp, re._constants as sc, re._compiler as scomp
import z3

MAXC = 0x2FFFF
S = z3.StringSort(); RS = z3.ReSort(S)
_cache = {}


class RxUnsupported(Exception):
    pass


def _ranges(pred, hi=MAXC):
    out = []; start = None
    for cp in range(hi + 1):
        ok = False if 0xD800 <= cp <= 0xDFFF else pred(chr(cp))
        if ok and start is None: start = cp
        if not ok and start is not None: out.append((start, cp - 1)); start = None
    if start is not None: out.append((start, hi))
    return out


def class_ranges(item, flags, hi=MAXC):
    key = (repr(item), flags, hi)
    if key not in _cache:
        state = sp.State(); state.flags = flags
        subp = sp.SubPattern(state, [(sc.AT, sc.AT_BEGINNING_STRING), item, (sc.AT, sc.AT_END_STRING)])
        pat = scomp.compile(subp, flags)
        _cache[key] = _ranges(lambda c: pat.match(c) is not None, hi)
    return _cache[key]


def char_class(item, flags):
    rs = class_ranges(item, flags)
    parts = [z3.Range(chr(a), chr(b)) if a != b else z3.Re(chr(a)) for a, b in rs]
    return parts[0] if len(parts) == 1 else z3.Union(*parts) if parts else z3.Empty(RS)


def _cat(ps):
    ps = list(ps)
    if not ps: return z3.Re('')
    return ps[0] if len(ps) == 1 else z3.Concat(*ps)


def _seq(items, flags, at_start):
    """language of the item sequence as a *prefix matcher*: returns (regex, anchored_end) where anchored_end says the
    sequence ended in an end anchor (so nothing may follow except what the anchor allows, already included)"""
    parts = []
    for idx, (op, av) in enumerate(items):
        if op in (sc.LITERAL, sc.NOT_LITERAL, sc.IN, sc.ANY, sc.CATEGORY):
            parts.append(char_class((op, av), flags))
        elif op in (sc.MAX_REPEAT, sc.MIN_REPEAT):
            lo, hi, sub = av
            r, anch = _seq(list(sub), flags, False)
            if anch: raise RxUnsupported('anchor inside a repeat')
            if hi == sc.MAXREPEAT:
                parts.append(z3.Star(r) if lo == 0 else z3.Plus(r) if lo == 1 else z3.Concat(z3.Loop(r, lo, lo), z3.Star(r)))
            else:
                parts.append(z3.Option(r) if (lo, hi) == (0, 1) else z3.Loop(r, lo, hi))
        elif op is sc.SUBPATTERN:
            r, anch = _seq(list(av[3]), flags, at_start and idx == 0)
            if anch:
                if idx != len(items) - 1: raise RxUnsupported('anchor inside a group that is not last')
                return _cat(parts + [r]), True
            parts.append(r)
        elif op is sc.BRANCH:
            alts = [_seq(list(b), flags, at_start and idx == 0) for b in av[1]]
            if any(a for _, a in alts):
                if idx != len(items) - 1: raise RxUnsupported('anchored alternative that is not last')
                anyc = z3.Star(z3.AllChar(RS))
                return _cat(parts + [z3.Union(*[r if a else z3.Concat(r, anyc) for r, a in alts])]), True
            parts.append(z3.Union(*[r for r, _ in alts]))
        elif op is sc.AT:
            if av in (sc.AT_BEGINNING, sc.AT_BEGINNING_STRING):
                if not (at_start and idx == 0): parts.append(z3.Empty(RS))     # ^ not at the start never matches (no MULTILINE)
            elif av is sc.AT_END:
                if idx != len(items) - 1: raise RxUnsupported('$ not last')
                return _cat(parts + [z3.Union(z3.Re(''), z3.Re('\n'))]), True
            elif av is sc.AT_END_STRING:
                if idx != len(items) - 1: raise RxUnsupported('\\Z not last')
                return _cat(parts), True
            else: raise RxUnsupported(str(av))
        else:
            raise RxUnsupported(str(op))
    return _cat(parts), False


def match_language(pattern, flags=0, full=False):
    """L = { s | re.match(pattern, s, flags) }  (full=True: re.fullmatch)"""
    pt = sp.parse(pattern, flags); flags = pt.state.flags
    if flags & re.MULTILINE: raise RxUnsupported('MULTILINE')
    r, anch = _seq(list(pt), flags, True)
    if full:
        if anch: return r
        return r
    return r if anch else z3.Concat(r, z3.Star(z3.AllChar(RS)))


def cross_check(pattern, flags, L, alphabet, maxlen=3, full=False):
    """translation vs. the real engine on all strings up to maxlen over the alphabet; returns (n, mismatch-or-None)"""
    rxc = re.compile(pattern, flags); n = 0
    for k in range(maxlen + 1):
        for tup in itertools.product(alphabet, repeat=k):
            w = ''.join(tup); n += 1
            real = (rxc.fullmatch(w) if full else rxc.match(w)) is not None
            sym = z3.is_true(z3.simplify(z3.InRe(z3.StringVal(w), L)))
            if real != sym: return n, f'{w!r}: re={real} z3={sym}'
    return n, None


def alphabet_for(pattern):
    base = {'\n', '-', '_', '٣', 'A', 'g', 'a', '0', '.', 'ſ'}
    for ch in pattern:
        if ch.isalnum() or ch in '[]/+:.': base.add(ch)
    return sorted(base)[:12]


def accepts_beyond_z3(pattern, flags):
    """code points above U+2FFFF that some class of the pattern accepts (must be empty for ASCII-only grammars): native, exhaustive"""
    pt = sp.parse(pattern, flags); fl = pt.state.flags
    hits = []

    def walk(items):
        for op, av in items:
            if op in (sc.LITERAL, sc.NOT_LITERAL, sc.IN, sc.ANY, sc.CATEGORY):
                state = sp.State(); state.flags = fl
                pat = scomp.compile(sp.SubPattern(state, [(sc.AT, sc.AT_BEGINNING_STRING), (op, av), (sc.AT, sc.AT_END_STRING)]), fl)
                for cp in itertools.chain(range(0x30000, 0x30400), range(0xE0000, 0xE0200), (0x10FFFF,)):
                    if pat.match(chr(cp)): hits.append(cp); break
            elif op in (sc.MAX_REPEAT, sc.MIN_REPEAT): walk(av[2])
            elif op is sc.SUBPATTERN: walk(av[3])
            elif op is sc.BRANCH:
                for b in av[1]: walk(b)
    walk(pt)
    return hits
