"""Concretiser for the JSON sort J: builds a real JSON value from a solver model (tag/has/get/elem/jlen/... interpretations)."""
import z3
from .engine import J, TAG, TAGS, tag, has, get, elem, jlen, sof, iof, bof, fnz


def string_constants(exprs):
    out = set(); seen = set()
    stack = list(exprs)
    while stack:
        e = stack.pop()
        if e.get_id() in seen: continue
        seen.add(e.get_id())
        if z3.is_string_value(e): out.add(e.as_string())
        if z3.is_quantifier(e): stack.append(e.body())
        else: stack.extend(e.children())
    return out


def concretize(model, term, keys, depth=4):
    ev = lambda t: model.eval(t, model_completion=True)
    tg = str(ev(tag(term)))
    if tg == 'null': return None
    if tg == 'bool': return z3.is_true(ev(bof(term)))
    if tg == 'int': return ev(iof(term)).as_long()
    if tg == 'float': return 1.5 if z3.is_true(ev(fnz(term))) else 0.0
    if tg == 'str': return ev(sof(term)).as_string()
    if depth == 0: return {} if tg == 'dict' else []
    if tg == 'list':
        n = ev(jlen(term)).as_long()
        return [concretize(model, elem(term, z3.IntVal(i)), keys, depth - 1) for i in range(max(0, min(n, 3)))]
    out = {}
    for k in sorted(keys):
        if z3.is_true(ev(has(term, z3.StringVal(k)))):
            out[k] = concretize(model, get(term, z3.StringVal(k)), keys, depth - 1)
    return out


def model_strings(model, exprs):
    """values, under the model, of every string-sorted subterm of the expressions (keys chosen by the solver for symbolic dictionary positions)"""
    out = set(); seen = set(); stack = list(exprs)
    while stack:
        e = stack.pop()
        if e.get_id() in seen: continue
        seen.add(e.get_id())
        if z3.is_quantifier(e):
            continue
        try:
            if e.sort() == z3.StringSort() and not z3.is_string_value(e):
                v = model.eval(e, model_completion=True)
                if z3.is_string_value(v): out.add(v.as_string())
        except z3.Z3Exception:
            pass
        stack.extend(e.children())
    return out


def all_model_strings(model):
    """every string literal occurring in the interpretation of any declaration of the model (array/function graphs included)"""
    out = set()
    def walk(e, seen):
        stack = [e]
        while stack:
            t = stack.pop()
            if t.get_id() in seen: continue
            seen.add(t.get_id())
            if z3.is_string_value(t): out.add(t.as_string()); continue
            if z3.is_quantifier(t): stack.append(t.body()); continue
            stack.extend(t.children())
    seen = set()
    for d in model.decls():
        itp = model[d]
        if isinstance(itp, z3.FuncInterp):
            for k in range(itp.num_entries()):
                en = itp.entry(k)
                for a in range(en.num_args()): walk(en.arg_value(a), seen)
                walk(en.value(), seen)
            walk(itp.else_value(), seen)
        elif itp is not None and isinstance(itp, z3.ExprRef):
            walk(itp, seen)
    return out
