"""Abstract views of the per-type property tables, the frozen copy under spec/, and an independent validator of emitted
JSON driven by the frozen copy (C02's oracle).  The frozen tables were bootstrapped from the tree after the `fix:` commits
and reviewed against the specification where the library was known to deviate (those deviations are findings, not table
edits); they are never regenerated at check time."""
import json, os, re
SPEC_DIR = os.path.join(os.path.dirname(os.path.dirname(os.path.abspath(__file__))), 'spec')
TS_RE = re.compile(r'^\d{4}-\d{2}-\d{2}T\d{2}:\d{2}:\d{2}(\.\d+)?Z\Z', re.A)
UUID_RE = re.compile(r'^[0-9a-fA-F]{8}-[0-9a-fA-F]{4}-[0-9a-fA-F]{4}-[0-9a-fA-F]{4}-[0-9a-fA-F]{12}\Z', re.A)
TYPE_RE = {'2.0': re.compile(r'^[a-z0-9-]+\Z', re.A), '2.1': re.compile(r'^[a-z][a-z0-9-]*\Z', re.A)}


def view(prop, ver):
    """the abstract view of one table entry"""
    import stix2.properties as P
    from stix2.base import _STIXBase
    v = {'kind': type(prop).__name__, 'required': bool(prop.required)}
    if hasattr(prop, '_fixed_value'): v['fixed'] = prop._fixed_value
    if hasattr(prop, 'default') and not hasattr(prop, '_fixed_value'): v['has_default'] = True
    if isinstance(prop, (P.IntegerProperty, P.FloatProperty)): v['min'], v['max'] = prop.min, prop.max
    if isinstance(prop, P.EnumProperty): v['allowed'] = sorted(prop.allowed)
    if isinstance(prop, P.OpenVocabProperty): v['vocab_size'] = len(prop.allowed)
    if isinstance(prop, P.TimestampProperty): v['precision'], v['constraint'] = str(prop.precision).lower().split('.')[-1], str(prop.precision_constraint).lower().split('.')[-1]
    if isinstance(prop, P.IDProperty): v['prefix'] = prop.required_prefix
    if isinstance(prop, P.TypeProperty): v['fixed'] = prop._fixed_value
    if isinstance(prop, P.ReferenceProperty):
        v['auth'] = 'white' if prop.auth_type == P.ReferenceProperty._WHITELIST else 'black'
        v['generics'] = sorted(g.name for g in prop.generics); v['specifics'] = sorted(prop.specifics)
    if isinstance(prop, P.ObjectReferenceProperty): v['valid_types'] = sorted(prop.valid_types) if getattr(prop, 'valid_types', None) else None
    if isinstance(prop, (P.DictionaryProperty, P.HashesProperty)): v['dict_version'] = getattr(prop, 'spec_version', None)
    if isinstance(prop, P.ListProperty):
        c = prop.contained
        v['list_of'] = view(c, ver) if isinstance(c, P.Property) else {'kind': 'embedded', 'class': c.__name__}
    if isinstance(prop, P.EmbeddedObjectProperty): v['class'] = prop.type.__name__
    if isinstance(prop, P.ExtensionsProperty): v['spec_version'] = prop.spec_version
    return v


def dump(ver):
    from vf import objgen as G
    out = {}
    for cname, (cat, cls) in sorted(G.classes(ver).items()):
        out[cname] = {'class': cls.__name__, 'properties': {n: view(p, ver) for n, p in cls._properties.items()},
                      'order': list(cls._properties),
                      'id_contributing': list(getattr(cls, '_id_contributing_properties', []) or []) if cat == 'observables' else None}
    return out


def frozen(ver):
    return json.load(open(os.path.join(SPEC_DIR, f'tables_v{ver.replace(".", "")}.json')))


def diff_tables(ver):
    """[(class, property, what)] where the current tables differ from the frozen specification model"""
    cur, fro = dump(ver), frozen(ver)
    out = []
    for cname in sorted(set(cur) | set(fro)):
        if cname not in cur: out.append((cname, None, 'class missing from the library')); continue
        if cname not in fro: out.append((cname, None, 'class not in the frozen model (new type: review and freeze)')); continue
        cp, fp = cur[cname]['properties'], fro[cname]['properties']
        for pn in sorted(set(cp) | set(fp)):
            if pn not in cp: out.append((cname, pn, 'property missing from the table'))
            elif pn not in fp: out.append((cname, pn, 'property not in the frozen model'))
            elif cp[pn] != fp[pn]:
                ks = [k for k in sorted(set(cp[pn]) | set(fp[pn])) if cp[pn].get(k) != fp[pn].get(k)]
                out.append((cname, pn, 'view differs in ' + ', '.join(f'{k}: {fp[pn].get(k)!r} -> {cp[pn].get(k)!r}' for k in ks)))
        if cur[cname]['order'] != fro[cname]['order']: out.append((cname, None, 'property order differs'))
        if cur[cname]['id_contributing'] != fro[cname]['id_contributing']:
            out.append((cname, None, f'id-contributing properties differ: {fro[cname]["id_contributing"]} -> {cur[cname]["id_contributing"]}'))
    return out


# ------------------------------------------------------------------ independent validator over the frozen model
def check_value(v, pv, ver, path, errs, tables):
    k = pv['kind']
    if v is None or v == [] or v == {}:
        errs.append(f'{path}: null / empty value emitted'); return
    if 'fixed' in pv and v != pv['fixed']: errs.append(f'{path}: must equal {pv["fixed"]!r}, got {v!r}')
    if k in ('StringProperty', 'PatternProperty', 'OpenVocabProperty', 'EnumProperty', 'TypeProperty', 'SelectorProperty', 'BinaryProperty', 'HexProperty'):
        if not isinstance(v, str): errs.append(f'{path}: string expected, got {type(v).__name__}')
        elif k == 'EnumProperty' and v not in pv['allowed']: errs.append(f'{path}: {v!r} not in the vocabulary')
        elif k == 'HexProperty' and not re.match(r'^([0-9a-fA-F]{2})+\Z', v): errs.append(f'{path}: not hex')
        elif k == 'PatternProperty' and not v: errs.append(f'{path}: empty pattern')
    elif k == 'IntegerProperty':
        if isinstance(v, bool) or not isinstance(v, int): errs.append(f'{path}: integer expected, got {v!r}')
        elif (pv['min'] is not None and v < pv['min']) or (pv['max'] is not None and v > pv['max']): errs.append(f'{path}: {v} outside [{pv["min"]}, {pv["max"]}]')
    elif k == 'FloatProperty':
        if isinstance(v, bool) or not isinstance(v, (int, float)): errs.append(f'{path}: number expected, got {v!r}')
        elif (pv['min'] is not None and v < pv['min']) or (pv['max'] is not None and v > pv['max']): errs.append(f'{path}: {v} outside [{pv["min"]}, {pv["max"]}]')
    elif k == 'BooleanProperty':
        if not isinstance(v, bool): errs.append(f'{path}: boolean expected, got {v!r}')
    elif k == 'TimestampProperty':
        if not isinstance(v, str) or not TS_RE.match(v): errs.append(f'{path}: not a canonical timestamp: {v!r}')
        else:
            frac = v.split('.')[1][:-1] if '.' in v else ''
            if pv['precision'] == 'millisecond' and (len(frac) != 3 if pv['constraint'] == 'exact' else len(frac) < 3): errs.append(f'{path}: {v!r} does not carry millisecond precision ({pv["constraint"]})')
            if pv['precision'] == 'second' and pv['constraint'] == 'exact' and frac: errs.append(f'{path}: {v!r} carries a fraction')
    elif k in ('IDProperty', 'ReferenceProperty'):
        if not isinstance(v, str) or '--' not in v: errs.append(f'{path}: not an identifier: {v!r}'); return
        t, u = v.split('--', 1)
        if not UUID_RE.match(u): errs.append(f'{path}: UUID part not in canonical form: {v!r}')
        else:
            import uuid as _u
            uo = _u.UUID(u)
            if uo.variant != _u.RFC_4122: errs.append(f'{path}: UUID is not an RFC 4122 variant: {v!r}')
            elif ver == '2.0' and uo.version != 4: errs.append(f'{path}: STIX 2.0 identifiers must be UUIDv4: {v!r}')
        if k == 'IDProperty' and not v.startswith(pv['prefix']): errs.append(f'{path}: wrong type prefix: {v!r}')
        if k == 'ReferenceProperty': check_ref_type(t, pv, ver, path, errs)
    elif k == 'ListProperty':
        if not isinstance(v, list): errs.append(f'{path}: list expected'); return
        for i, e in enumerate(v):
            lo = pv['list_of']
            if lo['kind'] == 'embedded':
                if not isinstance(e, dict): errs.append(f'{path}[{i}]: object expected')
                else: check_object(e, ver, f'embedded:{lo["class"]}', tables, errs, path + f'[{i}]')
            else: check_value(e, lo, ver, path + f'[{i}]', errs, tables)
    elif k in ('DictionaryProperty', 'HashesProperty'):
        if not isinstance(v, dict): errs.append(f'{path}: dictionary expected'); return
        lo, hi = ((3, 256) if pv.get('dict_version') == '2.0' else (1, 250))
        for key in v:
            if not re.match(r'^[a-zA-Z0-9_-]+\Z', key) or not lo <= len(key) <= hi: errs.append(f'{path}: illegal dictionary key {key!r}')
        if k == 'HashesProperty':
            for hk, hv in v.items():
                if not isinstance(hv, str): errs.append(f'{path}.{hk}: hash value must be a string')
    elif k == 'EmbeddedObjectProperty':
        if not isinstance(v, dict): errs.append(f'{path}: object expected')
        else: check_object(v, ver, f'embedded:{pv["class"]}', tables, errs, path)
    elif k == 'ObservableProperty':
        # the members of an observed-data `objects` container: each one an observable of THIS specification version, with that version's properties only
        if not isinstance(v, dict): errs.append(f'{path}: dictionary of observables expected')
        else:
            for mk, mv in v.items():
                if not isinstance(mv, dict) or not isinstance(mv.get('type'), str): errs.append(f'{path}.{mk}: observable object expected'); continue
                if f'observables:{mv["type"]}' not in tables: errs.append(f'{path}.{mk}: {mv["type"]!r} is not an observable type of {ver} (custom content in strict output)'); continue
                check_object(mv, ver, f'observables:{mv["type"]}', tables, errs, f'{path}.{mk}')
    elif k == 'STIXObjectProperty':
        if isinstance(v, dict) and isinstance(v.get('type'), str):
            mver = '2.1' if v.get('spec_version') == '2.1' or (ver == '2.1' and 'spec_version' not in v and f'observables:{v["type"]}' in frozen('2.1') and 'created' not in v) else ('2.0' if 'spec_version' not in v else str(v.get('spec_version')))
            if mver in ('2.0', '2.1'):
                mt = frozen(mver)
                cn = next((c for c in (f'objects:{v["type"]}', f'observables:{v["type"]}') if c in mt), None)
                if cn is None: errs.append(f'{path}: bundle member of type {v["type"]!r} is not a specification type of {mver} (custom content in strict output)')
                else: check_object(v, mver, cn, mt, errs, path)
    # ExtensionsProperty / MarkingProperty: checked structurally by the recursive object check below


GENERIC = {'SCO': 'observables', 'SDO': 'objects', 'SRO': 'objects'}
SRO = ('relationship', 'sighting')
NOT_SDO = SRO + ('bundle', 'marking-definition', 'language-content', 'extension-definition')


def type_class(t, ver, tables):
    if f'observables:{t}' in tables: return 'SCO'
    if t in SRO and f'objects:{t}' in tables: return 'SRO'
    if f'objects:{t}' in tables and t not in NOT_SDO: return 'SDO'
    return None


def check_ref_type(t, pv, ver, path, errs):
    tables = frozen(ver if ver in ('2.0', '2.1') else '2.1')
    tc = type_class(t, ver, tables)
    known = tc is not None or f'objects:{t}' in tables
    if not known:
        errs.append(f'{path}: reference to a type that is not a specification object type: {t!r}'); return
    hit = (tc in pv['generics']) or (t in pv['specifics'])
    if pv['auth'] == 'white' and not hit: errs.append(f'{path}: reference to a disallowed type {t!r} (allowed: {pv["generics"] + pv["specifics"]})')
    if pv['auth'] == 'black' and hit: errs.append(f'{path}: reference to a prohibited type {t!r}')


def check_object(d, ver, cname, tables, errs, path=''):
    if cname not in tables:
        errs.append(f'{path}: no frozen model for {cname}'); return
    props = tables[cname]['properties']
    for pn, pv in props.items():
        if pv['required'] and pn not in d: errs.append(f'{path}.{pn}: required property missing')
    for pn, v in d.items():
        if pn not in props:
            errs.append(f'{path}.{pn}: property not defined for {cname} (custom content in strict output)'); continue
        check_value(v, props[pn], ver, f'{path}.{pn}', errs, tables)
    for c in COCONSTRAINTS.get((ver, tables[cname]['class']), []):
        c(d, errs, path)
    if isinstance(d.get('granular_markings'), list):
        valid = set(object_paths(d))
        for gm in d['granular_markings']:
            for sel in (gm.get('selectors') or []) if isinstance(gm, dict) else []:
                if sel not in valid: errs.append(f'{path}.granular_markings: selector {sel!r} addresses nothing in the object')


def object_paths(d, prefix=''):
    """every property path of a JSON object in granular-marking selector syntax (independent enumerator: dictionaries by key, lists by .[i], nothing below a scalar)"""
    for k, v in d.items():
        if prefix == '' and k == 'granular_markings': continue
        p = f'{prefix}{k}'
        yield p
        if isinstance(v, dict): yield from object_paths(v, p + '.')
        elif isinstance(v, list):
            for i, e in enumerate(v):
                yield f'{p}.[{i}]'
                if isinstance(e, dict): yield from object_paths(e, f'{p}.[{i}].')


def _ts(s):
    import datetime as dtm
    if not isinstance(s, str) or not TS_RE.match(s): return None
    base, frac = (s[:-1].split('.') + ['0'])[:2]
    t = dtm.datetime.strptime(base, '%Y-%m-%dT%H:%M:%S')
    return (t - dtm.datetime(1, 1, 1)).total_seconds() * 10**6 + int(frac.ljust(6, '0')[:6])


def order(earlier, later, strict):
    def c(d, errs, path):
        a, b = _ts(d.get(earlier)), _ts(d.get(later))
        if a is not None and b is not None and (b <= a if strict else b < a):
            errs.append(f'{path}: {later} must be {"later than" if strict else "not earlier than"} {earlier}')
    return c


def xor(props, at_least_one=True):
    def c(d, errs, path):
        n = sum(p in d for p in props)
        if n > 1 or (at_least_one and n == 0): errs.append(f'{path}: exactly one of {props} required, {n} present')
    return c


def at_least_one(props):
    def c(d, errs, path):
        if not any(p in d for p in props): errs.append(f'{path}: at least one of {props} required')
    return c


# inter-property constraints of the specification (the ones the property statement names explicitly + per-type rules)
COCONSTRAINTS = {}
for _ver in ('2.0', '2.1'):
    for _cls in ('AttackPattern', 'Campaign', 'CourseOfAction', 'Identity', 'Indicator', 'IntrusionSet', 'Malware', 'ObservedData', 'Report', 'ThreatActor', 'Tool',
                 'Vulnerability', 'Relationship', 'Sighting', 'Grouping', 'Infrastructure', 'Location', 'MalwareAnalysis', 'Note', 'Opinion', 'LanguageContent'):
        COCONSTRAINTS.setdefault((_ver, _cls), []).append(order('created', 'modified', False))
for _cls in ('Campaign', 'Infrastructure', 'IntrusionSet', 'Malware', 'ThreatActor', 'Sighting'):
    COCONSTRAINTS.setdefault(('2.1', _cls), []).append(order('first_seen', 'last_seen', False))
COCONSTRAINTS[('2.1', 'Indicator')].append(order('valid_from', 'valid_until', True))
COCONSTRAINTS[('2.1', 'ObservedData')].append(order('first_observed', 'last_observed', False))
COCONSTRAINTS[('2.1', 'Relationship')].append(order('start_time', 'stop_time', True))
COCONSTRAINTS.setdefault(('2.1', 'NetworkTraffic'), []).append(order('start', 'end', False))
COCONSTRAINTS[('2.1', 'ObservedData')].append(xor(['objects', 'object_refs']))
COCONSTRAINTS.setdefault(('2.1', 'Artifact'), []).append(xor(['payload_bin', 'url']))
COCONSTRAINTS.setdefault(('2.0', 'Artifact'), []).append(xor(['payload_bin', 'url']))
COCONSTRAINTS.setdefault(('2.1', 'File'), []).append(at_least_one(['hashes', 'name']))
COCONSTRAINTS.setdefault(('2.0', 'File'), []).append(at_least_one(['hashes', 'name']))
COCONSTRAINTS.setdefault(('2.1', 'NetworkTraffic'), []).append(at_least_one(['src_ref', 'dst_ref']))
COCONSTRAINTS.setdefault(('2.0', 'NetworkTraffic'), []).append(at_least_one(['src_ref', 'dst_ref']))
COCONSTRAINTS[('2.1', 'MalwareAnalysis')].append(at_least_one(['result', 'analysis_sco_refs']))
COCONSTRAINTS[('2.1', 'Location')].append(lambda d, errs, path: errs.append(f'{path}: location needs region, country or latitude+longitude')
                                          if not ('region' in d or 'country' in d or ('latitude' in d and 'longitude' in d)) else None)
COCONSTRAINTS[('2.1', 'Location')].append(lambda d, errs, path: errs.append(f'{path}: latitude and longitude must come together') if ('latitude' in d) != ('longitude' in d) else None)
def requires(dep, needs):
    """`dep` may only be present together with every property of `needs` (presence, whatever the value: 0, false and '' are values)"""
    def c(d, errs, path):
        if dep in d and not all(n in d for n in needs): errs.append(f'{path}: {dep} is present without {[n for n in needs if n not in d]}')
    return c
COCONSTRAINTS[('2.1', 'Location')].append(requires('precision', ['latitude', 'longitude']))
for _ver in ('2.0', '2.1'):
    COCONSTRAINTS.setdefault((_ver, 'Artifact'), []).append(requires('url', ['hashes']))
    COCONSTRAINTS.setdefault((_ver, 'Artifact'), []).append(requires('decryption_key', ['encryption_algorithm']) if _ver == '2.1' else (lambda d, errs, path: None))
    COCONSTRAINTS.setdefault((_ver, 'EmailMessage'), []).append(lambda d, errs, path: errs.append(f'{path}: body_multipart is present although is_multipart is not true') if 'body_multipart' in d and d.get('is_multipart') is not True else None)
COCONSTRAINTS[('2.1', 'Malware')].append(lambda d, errs, path: errs.append(f'{path}: a malware family needs a name') if d.get('is_family') is True and 'name' not in d else None)
# STIX 2.0: whether Part 2 states the same order rules for indicator/observed-data/sighting is not certain from memory of the
# text; the permissive reading is taken (not enforced), see DESIGN section 4.


def validate(d, ver, cat):
    """errors of an emitted top-level JSON object against the frozen model"""
    tables = frozen(ver)
    errs = []
    t = d.get('type')
    cname = f'{cat}:{t}'
    check_object(d, ver, cname, tables, errs, t or '?')
    return errs
