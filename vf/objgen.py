"""Table-driven generator of valid STIX objects for the bounded stand-ins (domain D-obj of DESIGN Appendix B).

Everything is derived from the library's own `_properties` tables plus a small per-class *seed* (the extra properties that
make the minimal object satisfy its co-constraints) -- nothing is hand-written per object beyond the seeds.
A variant is (version, category, type name, label) -> kwargs.
"""
import copy, json
UUID = '311b2d2d-f010-4473-83ec-1edf84858f4c'
UUID2 = 'c78cb6e5-0c4b-4611-8297-d1b8b55e40b5'
T1, T2 = '2017-01-01T00:00:00Z', '2017-01-02T12:34:56.789Z'
EARLY = ('created', 'first_seen', 'valid_from', 'start', 'first_observed', 'ctime', 'created_time', 'analysis_started', 'validity_not_before', 'submitted', 'date', 'account_created')

SEEDS = {
    'EmailMIMEComponent': {'body': 'x'}, 'ExternalReference': {'external_id': 'x'}, 'GranularMarking': {'marking_ref': 'marking-definition--' + UUID},
    'WindowsPEOptionalHeaderType': {'size_of_code': 1}, 'NTFSExt': {'sid': 'x'}, 'PDFExt': {'version': '1.7'}, 'RasterImageExt': {'image_height': 1},
    'TCPExt': {'src_flags_hex': 'ab'}, 'UNIXAccountExt': {'gid': 1}, 'WindowsProcessExt': {'aslr_enabled': True}, 'WindowsServiceExt': {'service_name': 'x'},
    'Artifact': {'payload_bin': 'YWJj', 'mime_type': 'text/plain'}, 'File': {'name': 'a'}, 'Process': {'pid': 1}, 'X509Certificate': {'serial_number': 'x'},
    'Location': {'country': 'us'}, 'Malware': {'is_family': False}, 'MalwareAnalysis': {'result': 'benign'},
    'MarkingDefinition': {'definition_type': 'statement', 'definition': {'statement': 'x'}},
    'LanguageContent': {'contents': {'en': {'name': 'x'}}},
    'SocketExt': {}, 'HTTPRequestExt': {}, 'ArchiveExt': {},
}


def _P():
    import stix2.properties as P
    return P


def classes(ver):
    """name -> (category, cls) for every registered class of the version plus embedded (non-registered) classes of that package"""
    from stix2 import registry
    from stix2.base import _STIXBase
    import stix2.v20, stix2.v21  # noqa
    out = {}
    for cat, m in registry.STIX2_OBJ_MAPS[ver].items():
        for t, cls in m.items():
            if cls.__module__.startswith('stix2.v'): out[f'{cat}:{t}'] = (cat, cls)

    def allsubs(c):
        for s in c.__subclasses__():
            yield s; yield from allsubs(s)
    known = {c for _, c in out.values()}
    for c in sorted(set(allsubs(_STIXBase)), key=lambda c: c.__name__):
        if hasattr(c, '_properties') and c.__module__.startswith('stix2.v' + ver.replace('.', '')) and c not in known and not c.__name__.startswith('_'):
            out[f'embedded:{c.__name__}'] = ('embedded', c)
    return out


def sample(prop, name, ver, alt=0, depth=0):
    P = _P()
    if hasattr(prop, '_fixed_value'): return prop._fixed_value
    if isinstance(prop, P.IDProperty): return prop.required_prefix + UUID
    if isinstance(prop, (P.EnumProperty, P.OpenVocabProperty)):
        allowed = list(prop.allowed)
        return allowed[alt % len(allowed)]
    if isinstance(prop, P.ObjectReferenceProperty): return '0'
    if isinstance(prop, P.PatternProperty): return "[file:name = 'a']"
    if isinstance(prop, P.SelectorProperty): return 'type'
    if isinstance(prop, P.StringProperty):
        if name in ('lang',): return 'en'
        if name == 'pattern_type': return 'stix'
        return ['abc', 'café \u0001 "q" \\ \U0001F600', ''][alt % 3] if alt else 'abc'
    if isinstance(prop, P.IntegerProperty):
        lo = prop.min if prop.min is not None else 1
        if alt == 0: return lo
        return [lo, prop.max if prop.max is not None else 2**53 + 1, 0 if (prop.min is None or prop.min <= 0) else lo][alt % 3]
    if isinstance(prop, P.FloatProperty):
        lo = prop.min if prop.min is not None else 1.5
        if alt == 0: return lo
        hi = prop.max if prop.max is not None else 1e21
        return [lo, hi, 0.1 if (prop.min is None or prop.min <= 0.1) and (prop.max is None or prop.max >= 0.1) else lo][alt % 3]
    if isinstance(prop, P.BooleanProperty): return [True, False][alt % 2]
    if isinstance(prop, P.TimestampProperty):
        if name in EARLY: return [T1, '2017-01-01T00:00:00.000001Z', '0999-12-31T23:59:59.5Z'][alt % 3] if alt else T1
        return [T2, '2017-01-02T12:34:56.789123Z', '2017-01-02T12:34:56.100Z'][alt % 3] if alt else T2
    if isinstance(prop, P.HashesProperty): return {'MD5': 'a' * 32} if alt % 2 == 0 else {'SHA-256': 'b' * 64, 'MD5': 'c' * 32}
    if isinstance(prop, P.ExtensionsProperty): return None
    if isinstance(prop, P.DictionaryProperty): return {'abc': 'x'} if alt % 2 == 0 else {'key_1': [1, 2.5, {'n': None}], 'k-2': 'v'}
    if isinstance(prop, P.BinaryProperty): return 'YWJj'
    if isinstance(prop, P.HexProperty): return 'ab'
    if isinstance(prop, P.ReferenceProperty):
        return ref_target(prop, ver, alt) + '--' + UUID
    if isinstance(prop, P.ListProperty):
        c = prop.contained
        if isinstance(c, P.Property) and not isinstance(c, P.STIXObjectProperty):
            if alt % 2: return [sample(c, name, ver, 0, depth + 1), sample(c, name, ver, 1, depth + 1)]
            return [sample(c, name, ver, 0, depth + 1)]
        if isinstance(c, type): return [minimal(c, ver, depth + 1)]
        return [sample(c, name, ver, 0, depth + 1)]
    if isinstance(prop, P.EmbeddedObjectProperty): return minimal(prop.type, ver, depth + 1)
    if isinstance(prop, P.ObservableProperty):
        return {'0': {'type': 'file', 'name': 'a'}} if ver == '2.0' else {'0': {'type': 'file', 'name': 'a', 'id': 'file--' + UUID, 'spec_version': '2.1'}}
    if isinstance(prop, P.STIXObjectProperty):
        d = {'type': 'identity', 'id': 'identity--' + UUID, 'created': T1, 'modified': T2, 'name': 'n', 'identity_class': 'individual'}
        if ver == '2.1': d['spec_version'] = '2.1'
        return d
    if type(prop).__name__ == 'MarkingProperty': return {'statement': 'x'}
    if type(prop).__name__ == 'Property': return 'abc'
    raise NotImplementedError(type(prop).__name__)


def ref_target(prop, ver, alt=0):
    """a type name the reference property must accept"""
    from stix2.properties import ReferenceProperty
    generic = {'SCO': 'file', 'SDO': 'identity', 'SRO': 'relationship'}
    if prop.auth_type == ReferenceProperty._WHITELIST:
        opts = sorted(prop.specifics) + [generic[g.name] for g in sorted(prop.generics, key=lambda g: g.name)]
        return opts[alt % len(opts)]
    banned = set(prop.specifics) | {generic[g.name] for g in prop.generics}
    for cand in ('identity', 'indicator', 'file', 'relationship'):
        if cand not in banned: return cand
    return 'identity'


def all_ref_targets(prop, ver):
    from stix2.properties import ReferenceProperty
    from stix2 import registry
    generic = {'SCO': 'observables', 'SDO': 'objects', 'SRO': 'objects'}
    if prop.auth_type != ReferenceProperty._WHITELIST: return [ref_target(prop, ver)]
    out = sorted(prop.specifics)
    for g in prop.generics:
        m = registry.STIX2_OBJ_MAPS[ver if ver in registry.STIX2_OBJ_MAPS else '2.1']
        if g.name == 'SCO': out += sorted(m['observables'])
        elif g.name == 'SRO': out += ['relationship', 'sighting']
        else: out += [t for t in sorted(m['objects']) if t not in ('relationship', 'sighting', 'bundle', 'marking-definition', 'language-content', 'extension-definition')]
    return out


def minimal(cls, ver, depth=0):
    kw = {}
    for name, prop in cls._properties.items():
        if prop.required:
            v = sample(prop, name, ver, 0, depth)
            if v is not None: kw[name] = v
    seed = copy.deepcopy(SEEDS.get(cls.__name__, {}))
    kw.update({k: v for k, v in seed.items() if k in cls._properties})
    if cls.__name__ == 'Process' and ver == '2.1': kw = {k: v for k, v in kw.items()}
    if cls.__name__ == 'NetworkTraffic':
        kw['src_ref'] = '0' if ver == '2.0' else 'ipv4-addr--' + UUID
    if cls.__name__ == 'ObservedData' and ver == '2.1':
        kw.pop('objects', None); kw['object_refs'] = ['file--' + UUID]
    if cls.__name__ == 'Bundle': kw.pop('objects', None)
    return kw


def ctor_kwargs(cls, cat, ver, kw):
    """extra constructor-only arguments (2.0 observables need the reference scope)"""
    out = dict(kw)
    if cat in ('observables',) and ver == '2.0':
        out['_valid_refs'] = valid_refs_for(cls, kw)
    return out


def valid_refs_for(cls, kw):
    P = _P()
    types = {}
    for name, prop in cls._properties.items():
        p = prop.contained if isinstance(prop, P.ListProperty) else prop
        if isinstance(p, P.ObjectReferenceProperty) and name in kw:
            vt = getattr(p, 'valid_types', None)
            types['0'] = (sorted(vt)[0] if vt else 'file')
    return types or {'0': 'file'}


def variants(ver, alts=(0,), with_all=True):
    """yield (label, category, cls, kwargs): minimal; each optional property singly (for each alt value class); all optionals"""
    P = _P()
    for cname, (cat, cls) in sorted(classes(ver).items()):
        base = minimal(cls, ver)
        yield (f'{ver}:{cname}:minimal', cat, cls, base)
        allopt = dict(base)
        for pname, prop in cls._properties.items():
            if prop.required and pname in base and not hasattr(prop, '_fixed_value') and not isinstance(prop, P.IDProperty):
                for alt in alts:
                    if alt == 0: continue
                    v = sample(prop, pname, ver, alt)
                    if v is not None and v != base.get(pname): yield (f'{ver}:{cname}:req:{pname}#{alt}', cat, cls, fixup(cls, ver, dict(base, **{pname: v}), pname))
            if prop.required or pname in base: continue
            for alt in alts:
                v = sample(prop, pname, ver, alt)
                if v is None: continue
                kw = fixup(cls, ver, dict(base, **{pname: v}), pname)
                yield (f'{ver}:{cname}:opt:{pname}#{alt}', cat, cls, kw)
                if alt == 0: allopt[pname] = v
        if with_all and len(allopt) > len(base):
            yield (f'{ver}:{cname}:all-optional', cat, cls, fixup(cls, ver, allopt, None, all_=True))


def fixup(cls, ver, kw, added, all_=False):
    """co-constraint aware adjustments when an optional property is added (kept table-like: one rule per constraint kind)"""
    n = cls.__name__
    if 'modified' in kw and 'created' not in kw and 'created' in cls._properties: kw['created'] = T1
    for late, early in (('valid_until', 'valid_from'), ('stop_time', 'start_time'), ('last_seen', 'first_seen'), ('last_observed', 'first_observed'), ('end', 'start')):
        if late in kw and early in cls._properties and early not in kw: kw[early] = T1
    if n == 'GranularMarking' and 'lang' in kw: kw.pop('marking_ref', None)
    if n == 'SocketExt' and 'options' in kw: kw['options'] = {'SO_KEEPALIVE': 1}
    if n == 'File' and ver == '2.0' and ('encryption_algorithm' in kw or 'decryption_key' in kw): kw['is_encrypted'] = True
    if n == 'Artifact' and (added == 'url' or all_):
        if all_: kw.pop('url', None)
        else:
            kw.pop('payload_bin', None); kw['hashes'] = {'MD5': 'a' * 32}
    if n == 'Artifact' and all_: kw.pop('encryption_algorithm', None) if ver == '2.1' and 'decryption_key' not in kw else None
    if n == 'Artifact' and ver == '2.1' and 'decryption_key' in kw: kw.setdefault('encryption_algorithm', 'mime-type-indicated')          # (decryption_key MUST NOT be present without encryption_algorithm)
    if n == 'ObservedData' and ver == '2.1' and (added == 'objects' or all_): kw.pop('objects' if all_ else 'object_refs', None)
    if n == 'EmailMessage':
        if added in ('body',): kw['is_multipart'] = False
        if added in ('body_multipart',): kw['is_multipart'] = True
        if all_: kw.pop('body_multipart', None); kw['is_multipart'] = False
    if n == 'Malware' and ver == '2.1' and kw.get('is_family'): kw['name'] = 'fam'
    if n == 'Location':
        if added in ('latitude', 'longitude', 'precision') or all_:
            kw.setdefault('latitude', 1.5); kw.setdefault('longitude', 1.5)
    if n == 'NetworkTraffic' and ver == '2.1' and (added == 'end' or all_): kw['is_active'] = False; kw.setdefault('start', T1)
    if n == 'NetworkTraffic' and ver == '2.1' and added == 'is_active': kw.pop('end', None)
    if n == 'Indicator' and ver == '2.1' and all_: pass
    if n == 'File' and ver == '2.0' and (added in ('is_encrypted',) or all_): pass
    if n == 'Sighting' and all_: pass
    if n == 'Process' and all_: pass
    if n == 'MarkingDefinition' and (added == 'name' or all_): pass
    if n == 'SocketExt' and all_: pass
    return kw


def build(label, cat, cls, kw, ver, allow_custom=False):
    return cls(allow_custom=allow_custom, **ctor_kwargs(cls, cat, ver, kw)) if cat != 'embedded' or True else None
