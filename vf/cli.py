"""./check <ID> [--tier quick|thorough]   |   ./check <ID> --replay <path>

Exit codes: 0 property held on everything explored / 1 violation (VIOLATION line printed) / 2 nothing could be decided /
3 checker fault (never a violation)."""
import argparse, importlib, json, os, sys, traceback

ROOT = os.path.dirname(os.path.dirname(os.path.abspath(__file__)))


def main():
    ap = argparse.ArgumentParser()
    ap.add_argument('prop'); ap.add_argument('--tier', default=os.environ.get('VERIF_TIER', 'quick'), choices=['quick', 'thorough'])
    ap.add_argument('--replay'); ap.add_argument('--src-root')
    a = ap.parse_args()
    if a.src_root: os.environ['VERIF_SRC_ROOT'] = a.src_root
    sys.path.insert(0, ROOT)
    seed = int(os.environ.get('VERIF_SEED', '0') or 0)
    from vf.check import Check
    mod = importlib.import_module(f'props.{a.prop}')
    chk = Check(a.prop, a.tier, seed, level=getattr(mod, 'LEVEL', 'other'))
    if a.replay:
        rec = json.load(open(a.replay if os.path.isabs(a.replay) else os.path.join(ROOT, a.replay)))
        print(f'replaying {a.replay}: key={rec.get("key")} what={rec.get("what")}')
        if hasattr(mod, 'replay'):
            return mod.replay(chk, rec)
        try: mod.run(chk)
        except Exception: traceback.print_exc(); return 3
        again = [v for v in chk.violations if v['key'] == rec.get('key')]
        print('REPRODUCED' if again else 'NOT-REPRODUCED on the current tree')
        return 1 if again else 0
    try:
        mod.run(chk)
    except Exception:
        traceback.print_exc()
        chk.faults.append('uncaught exception in the check: ' + traceback.format_exc(limit=3))
    return chk.finish()


if __name__ == '__main__':
    sys.exit(main())
