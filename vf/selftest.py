"""Mutation self-test of the engine + contracts: systematic small edits of the *target function's* source are written to a
scratch copy outside /repo and /verif, PyVC is run on the mutant, and a named obligation must fail.  Survivors are
compared natively with the original on a supplied domain: behaviourally equivalent mutants are discounted."""
import ast, copy, os, shutil, tempfile
from .pyvc.contract import verify
from .pyvc import engine as E

CMP_SWAPS = {ast.Lt: [ast.LtE, ast.GtE], ast.LtE: [ast.Lt, ast.Gt], ast.Gt: [ast.GtE, ast.LtE], ast.GtE: [ast.Gt, ast.Lt], ast.Eq: [ast.NotEq], ast.NotEq: [ast.Eq],
             ast.In: [ast.NotIn], ast.NotIn: [ast.In], ast.Is: [ast.IsNot], ast.IsNot: [ast.Is]}


def gen_mutants(fn_node, limit=400):
    """yield (description, mutated FunctionDef) -- one AST edit each"""
    nodes = list(ast.walk(fn_node))
    count = 0
    for idx, n in enumerate(nodes):
        edits = []
        if isinstance(n, ast.Compare):
            for k, op in enumerate(n.ops):
                for new in CMP_SWAPS.get(type(op), []):
                    edits.append((f'line {n.lineno}: {type(op).__name__}->{new.__name__}', lambda m, k=k, new=new: m.ops.__setitem__(k, new())))
        elif isinstance(n, ast.Constant) and isinstance(n.value, bool):
            edits.append((f'line {n.lineno}: {n.value}->{not n.value}', lambda m: setattr(m, 'value', not m.value)))
        elif isinstance(n, ast.Constant) and isinstance(n.value, int):
            for d in (1, -1):
                edits.append((f'line {n.lineno}: {n.value}->{n.value + d}', lambda m, d=d: setattr(m, 'value', m.value + d)))
        elif isinstance(n, ast.Constant) and isinstance(n.value, str) and n.value and not _is_docstring(fn_node, n):
            edits.append((f'line {n.lineno}: {n.value!r}->{n.value + "x"!r}', lambda m: setattr(m, 'value', m.value + 'x')))
        elif isinstance(n, ast.BoolOp):
            edits.append((f'line {n.lineno}: and<->or', lambda m: setattr(m, 'op', ast.Or() if isinstance(m.op, ast.And) else ast.And())))
        elif isinstance(n, ast.If):
            edits.append((f'line {n.lineno}: negate if-test', lambda m: setattr(m, 'test', ast.UnaryOp(op=ast.Not(), operand=m.test))))
        elif isinstance(n, ast.BinOp) and isinstance(n.op, (ast.Add, ast.Sub)):
            edits.append((f'line {n.lineno}: +<->-', lambda m: setattr(m, 'op', ast.Sub() if isinstance(m.op, ast.Add) else ast.Add())))
        elif isinstance(n, ast.UnaryOp) and isinstance(n.op, ast.Not):
            edits.append((f'line {n.lineno}: drop not', lambda m: (setattr(m, 'op', ast.UAdd()) if False else None) or _replace_with_operand(m)))
        for desc, edit in edits:
            mutant = copy.deepcopy(fn_node)
            target = list(ast.walk(mutant))[idx]
            edit(target)
            ast.fix_missing_locations(mutant)
            count += 1
            if count > limit: return
            yield desc, mutant


def _replace_with_operand(m):
    # turn `not X` into `bool(X)` in place
    operand = m.operand
    m.__class__ = ast.Call
    m.func = ast.Name(id='bool', ctx=ast.Load()); m.args = [operand]; m.keywords = []
    for f in ('op', 'operand'):
        if hasattr(m, f): delattr(m, f)


def _is_docstring(fn, n):
    b = fn.body[0] if fn.body else None
    return isinstance(b, ast.Expr) and b.value is n


def write_mutant_tree(src_root, relpath, qualname, mutant_fn):
    """scratch tree containing only what the engine reads: the mutated file and stix2/exceptions.py"""
    td = tempfile.mkdtemp(prefix='vf-mut-')
    tree = ast.parse(open(os.path.join(src_root, relpath)).read())
    parent = tree
    parts = qualname.split('.')
    for part in parts[:-1]:
        parent = next(n for n in parent.body if isinstance(n, ast.ClassDef) and n.name == part)
    for i, n in enumerate(parent.body):
        if isinstance(n, ast.FunctionDef) and n.name == parts[-1]:
            parent.body[i] = mutant_fn
    os.makedirs(os.path.dirname(os.path.join(td, relpath)), exist_ok=True)
    open(os.path.join(td, relpath), 'w').write(ast.unparse(tree))
    os.makedirs(os.path.join(td, 'stix2'), exist_ok=True)
    if relpath != 'stix2/exceptions.py':
        shutil.copy(os.path.join(src_root, 'stix2/exceptions.py'), os.path.join(td, 'stix2/exceptions.py'))
    return td


def mutation_selftest(contract, registry, src_root, equivalent=None, limit=400):
    """returns dict(total, killed, equivalent, undecided, survivors=[desc...]).
    equivalent(mutant_source_of_function) -> True when the mutant behaves like the original on the native domain."""
    relpath, qualname = contract.target.split('::')
    tree = ast.parse(open(os.path.join(src_root, relpath)).read())
    fn = E.find_def(tree, qualname)
    res = {'function': contract.name, 'total': 0, 'killed': 0, 'equivalent': 0, 'undecided': 0, 'survivors': []}
    for desc, mutant in gen_mutants(fn, limit):
        td = write_mutant_tree(src_root, relpath, qualname, mutant)
        try:
            rep = verify(contract, registry, td)
        finally:
            shutil.rmtree(td, ignore_errors=True)
        res['total'] += 1
        if rep.status == 'ok' and rep.failed: res['killed'] += 1
        elif rep.status != 'ok' or rep.undecided:
            res['undecided'] += 1
        else:
            if equivalent is not None and equivalent(mutant):
                res['equivalent'] += 1
            else:
                res['survivors'].append(desc)
    return res


def compile_function(fn_node, module_globals):
    """compile a (mutated) FunctionDef in a copy of the real module's namespace, for native differential testing"""
    mod = ast.Module(body=[fn_node], type_ignores=[])
    ast.fix_missing_locations(mod)
    ns = dict(module_globals)
    exec(compile(mod, '<mutant>', 'exec'), ns)
    return ns[fn_node.name]
