"""Per-property check context: runs function contracts (tier P), lemmas over contracts, bounded stand-ins (tier B),
replays counterexamples on the real code, applies the known-findings protocol and writes evidence."""
import re
import datetime as dt, hashlib, importlib, json, os, random, sys, time, traceback
import z3
from .pyvc import engine as E
from .pyvc.contract import verify, Obligation, discharge, FunctionReport
from .pyvc.engine import Val, NONE

ROOT = os.path.dirname(os.path.dirname(os.path.abspath(__file__)))
SRC_ROOT = os.environ.get('VERIF_SRC_ROOT', '/repo')
EPOCH = dt.datetime(1, 1, 1, tzinfo=dt.timezone.utc)


def load_findings():
    p = os.path.join(ROOT, 'known_findings.json')
    if not os.path.exists(p): return []
    return json.load(open(p))['findings']


# ------------------------------------------------------------------------------------------ lowering / lifting
def lower_param(sort, name, model):
    """model value(s) of a parameter -> Python value"""
    if isinstance(sort, Val): sort = sort.sort
    if sort in ('int', 'bool', 'str'): return model[name]
    if sort == 'dt': return EPOCH + dt.timedelta(microseconds=model[name])
    if sort == 'td': return dt.timedelta(microseconds=model[name])
    if sort == 'none': return None
    if sort.startswith('opt:'):
        return None if model.get(name + '.isnone') else lower_param(sort[4:], name, model)
    raise KeyError(f'no generic lowering for sort {sort}')


def lift(py):
    """Python value -> concrete Val (for native evaluation of contract clauses)"""
    if py is None: return NONE
    if isinstance(py, bool): return E.Bool(py)
    if isinstance(py, int): return E.Int(py)
    if isinstance(py, str): return E.Str(py)
    if isinstance(py, dt.datetime):
        if py.tzinfo is None: py = py.replace(tzinfo=dt.timezone.utc)
        d = py - EPOCH
        return Val('dt', z3.IntVal((d.days * 86400 + d.seconds) * 10**6 + d.microseconds))
    if isinstance(py, dt.timedelta): return Val('td', z3.IntVal((py.days * 86400 + py.seconds) * 10**6 + py.microseconds))
    if isinstance(py, (tuple, list)): return Val('tuple', x=[lift(v) for v in py])
    return Val('opaque', x=repr(py))


def lift_as(py, sort):
    if isinstance(sort, Val): sort = sort.sort
    if sort.startswith('opt:'):
        inner = sort[4:]
        if py is None: return Val(sort, (z3.BoolVal(True), E.named(inner, 'dead')))
        return Val(sort, (z3.BoolVal(False), lift_as(py, inner)))
    return lift(py)


def holds(term, facts=()):
    t = z3.simplify(term)
    if z3.is_true(t): return True
    if z3.is_false(t): return False
    s = z3.Solver(); s.add(*facts); s.add(z3.Not(t))
    return s.check() == z3.unsat


class Replay:
    """How to call the real function for a counterexample: `call(pyargs) -> value` runs the real code (imported from
    the repository under test); lowering/lifting default to the generic by-sort rules."""

    def __init__(self, call=None, lower=None, lift_result=None, lift_params=None, facts=None, lower_z3=None, judge=None):
        self.call, self.lower, self.lift_result, self.lift_params, self.facts = call, lower, lift_result, lift_params, facts
        self.lower_z3 = lower_z3       # (z3 model, obligation) -> pyargs, for sorts without a generic lowering (JSON values)
        self.judge = judge             # (pyargs, outcome, obligation) -> [violated clause names], replaces the generic native evaluation
        self.search = None             # () -> iterable of pyargs: small native search for a failing input when the failed obligation carries no input model
                                       # (a loop-invariant obligation's counter-model is a mid-loop state, not an input); needs `judge`


def import_target(target):
    rel, qual = target.split('::')
    mod = importlib.import_module(rel[:-3].replace('/', '.'))
    obj = mod
    for part in qual.split('.'): obj = getattr(obj, part)
    return obj


class HarnessMismatch(Exception):
    """the replay harness could not call the real function (it was renamed, removed, or its signature changed): the contract does not fit the current
    source -- never a violation"""


def native_outcome(contract, pyargs):
    fn = contract.replay.call if contract.replay and contract.replay.call else None
    try:
        if fn: r = fn(pyargs)
        else: r = import_target(contract.target)(**pyargs)
        return ('return', r)
    except Exception as ex:       # noqa
        import traceback as _tb
        frames = _tb.extract_tb(ex.__traceback__)
        in_library = any(('/stix2/' in f.filename.replace('\\', '/') or '/site-packages/' in f.filename) and '/verif/' not in f.filename for f in frames)
        if not in_library and isinstance(ex, (AttributeError, TypeError, ImportError, NameError, KeyError)):
            raise HarnessMismatch(f'{type(ex).__name__}: {ex}')
        return ('raise', ex)


def native_check(contract, pyargs, outcome):
    """Evaluate the contract natively on a concrete call.  Returns (precondition_holds, [names of violated clauses])."""
    rp = contract.replay
    if rp and rp.lift_params: params = rp.lift_params(pyargs)
    else: params = {k: lift_as(pyargs[k], contract.params[k]) for k in contract.params if k in pyargs}
    facts = rp.facts(pyargs) if rp and rp.facts else ()
    holds = lambda t: globals()['holds'](t, facts)     # noqa: E731
    for name, r in contract.requires:
        if not holds(r(params)): return False, []
    bad = []
    kind, val = outcome
    if kind == 'return':
        res = rp.lift_result(val) if rp and rp.lift_result else lift(val)
        for name, fn in contract.ensures:
            try:
                if not holds(fn(params, res)): bad.append('ensures:' + name)
            except Exception as ex:
                bad.append(f'ensures:{name} [{type(ex).__name__}: {ex}]')
        for exn, cond in contract.raises.items():
            if cond is not None and holds(cond(params)): bad.append(f'raises:{exn}:must-raise-when-condition-holds')
    else:
        names = [c.__name__ for c in type(val).__mro__]
        allowed = [exn for exn in contract.raises if exn in names]
        if not allowed: bad.append(f'raises:only-listed-exceptions-escape ({type(val).__name__}: {val})')
        else:
            cond = contract.raises[allowed[0]]
            if cond is not None and not holds(cond(params)): bad.append(f'raises:{allowed[0]}:only-when-condition-holds')
    return True, bad


# ------------------------------------------------------------------------------------------ the check context
class Check:
    def __init__(self, prop_id, tier='quick', seed=0, level='other', registry=None):
        self.id = prop_id; self.tier = tier; self.seed = seed; self.level = level
        self.rng = random.Random(seed)
        self.t0 = time.time()
        self.registry = registry
        self.reports = []            # FunctionReports
        self.lemmas = []             # Obligations proved from contracts alone
        self.bounded_runs = []       # dicts
        self.assumptions = []
        self.trusted = []
        self.violations = []         # dicts with replay path
        self.known_hits = []
        self.faults = []
        self.undecided_notes = []
        self.samples = []
        self.canaries = []
        self.findings = [f for f in load_findings() if f['property'] == prop_id]
        self.explanation = ''
        self.extra = {}
        self._families_run = set()
        sys.path.insert(0, SRC_ROOT) if SRC_ROOT != '/repo' else None

    # ---- reporting helpers
    def say(self, *a): print(*a, flush=True)

    def assume(self, *texts):
        for t in texts:
            if t not in self.assumptions: self.assumptions.append(t)

    def trust(self, *texts):
        for t in texts:
            if t not in self.trusted: self.trusted.append(t)

    def write_replay(self, rec):
        os.makedirs(os.path.join(ROOT, 'replays'), exist_ok=True)
        h = hashlib.sha256(json.dumps(rec, sort_keys=True, default=str).encode()).hexdigest()[:12]
        path = os.path.join('replays', f'{self.id}-{h}.json')
        rec = dict(rec, property=self.id, how_to_replay=f'./check {self.id} --replay {path}')
        json.dump(rec, open(os.path.join(ROOT, path), 'w'), indent=1, default=str)
        return path

    def known(self, key):
        for f in self.findings:
            if f.get('status') == 'known' and f['key'] == key: return f
        return None

    def violation(self, key, what, rec, no_input=False):
        """register a violation unless the known-findings file lists exactly this key"""
        f = self.known(key)
        if f is not None:
            if key not in [k for k, _ in self.known_hits]:
                self.known_hits.append((key, f['what']))
                self.say(f'KNOWN-FINDING: property={self.id} {f["what"]} [key={key}]')
            return False
        if key in [v['key'] for v in self.violations]:
            self.extra['further_witnesses_of_reported_keys'] = self.extra.get('further_witnesses_of_reported_keys', 0) + 1
            return True
        path = self.write_replay(dict(rec, key=key, what=what))
        self.violations.append({'key': key, 'what': what, 'replay': path})
        self.say(f'VIOLATION property={self.id} replay={path}' + (' no-failing-input-found' if no_input else ''))
        self.say(f'  {key}: {what}')
        return True

    # ---- tier P: function contracts
    def prove(self, contract, src_root=None, quiet=False):
        rep = verify(contract, self.registry, src_root or SRC_ROOT)
        self.reports.append(rep)
        for a in contract.assumptions: self.assume(a)
        if not quiet: self.say('  [P] ' + rep.summary())
        if rep.status == 'undecided':
            self.undecided_notes.append(f'{contract.name}: {rep.reason}')
            self.native_fallback(contract, rep, family=True)
            return rep
        if not rep.obligations:
            self.faults.append(f'{contract.name}: zero obligations generated (vacuous)')
            return rep
        for ob in rep.failed:
            self.handle_failed(contract, ob)
        for ob in rep.undecided:
            self.undecided_notes.append(f'{ob.name}: {ob.detail}')
        # the contract's native family runs on every run, decided or not: it carries what the abstraction of the proof leaves out (histories across calls,
        # state left behind in class tables, input classes outside the modelled sort) -- a bounded stand-in next to the proof, never counted as proved
        self.native_fallback(contract, rep, family=True)
        return rep

    def native_fallback(self, contract, rep, max_candidates=2000, budget_s=20.0, family=True):
        """The contract, or some of its obligations, cannot be decided on the current source (the code left the modelled subset, or a path is
        over-approximated).  Undecided is not a violation.  What can still be done soundly: candidate inputs -- the solver's models of the undecided
        obligations (inputs are concrete there even though intermediate values are havoc) and the contract's native search family -- are run on the
        real function and the contract is evaluated on the concrete outcome.  Only a candidate on which the real code violates a clause is reported,
        with that input; otherwise the contract stays undecided.  This is a bounded stand-in (labelled so in the evidence), never counted as proved."""
        rp = contract.replay
        if rp is None or not (rp.call or all(isinstance(v, str) and v in ('int', 'bool', 'str') for v in contract.params.values())): return
        if not rep.undecided and rep.status != 'undecided' and not (rp.search and rp.judge): return
        fam_key = (contract.name, contract.note)
        if not rep.undecided and rep.status != 'undecided':
            if fam_key in self._families_run: return
        self._families_run.add(fam_key)
        t0 = time.time(); n = 0; found = None

        def candidates():
            seen = set()
            for ob in rep.undecided:
                if ob.model is None: continue
                try:
                    if rp.lower_z3: py = rp.lower_z3(ob.z3model, ob)
                    else: py = rp.lower(ob.model) if rp.lower else {k: lower_param(contract.params[k], k, ob.model) for k in contract.params}
                except Exception: continue
                k = repr(sorted(py.items(), key=lambda kv: kv[0])) if isinstance(py, dict) else repr(py)
                if k not in seen:
                    seen.add(k); yield py, ob
            if rp.search:
                for py in rp.search(): yield py, None
        try:
            for py, ob in candidates():
                if n >= max_candidates or time.time() - t0 > budget_s: break
                n += 1
                try: outcome = native_outcome(contract, py)
                except HarnessMismatch as hm:
                    self.undecided_notes.append(f'{contract.name}: native family not applicable to the current source ({hm})'); break
                try:
                    if rp.judge: pre, bad = True, rp.judge(py, outcome, ob)
                    else: pre, bad = native_check(contract, py, outcome)
                except Exception: continue
                if pre and bad:
                    found = (py, outcome, bad); break
        except Exception as ex:
            self.undecided_notes.append(f'{contract.name}: native fallback failed: {type(ex).__name__}: {ex}')
        und = bool(rep.undecided) or rep.status == 'undecided'
        self.bounded_runs.append({'name': ('native fallback for the undecided contract ' if und else 'native family of the contract ') + contract.name + (f' [{contract.note[:60]}]' if contract.note else ''),
                                  'bound': f'<= {max_candidates} candidates: ' + ('models of undecided obligations + ' if und else '') + f'the contract\'s native search family, {budget_s:.0f} s',
                                  'evaluations': n, 'distinct_classes': None, 'witnesses': 1 if found else 0, 'wall_s': round(time.time() - t0, 2), 'samples': []})
        if found:
            py, outcome, bad = found
            rec = {'function': contract.target, 'input': {k: repr(v) for k, v in py.items() if not k.startswith('_')}, 'native_outcome': [outcome[0], repr(outcome[1])[:400]], 'natively_violated': bad,
                   'found_by': ('the contract is undecided on the current source; ' if und else 'native family of the contract: ') + 'this input was run on the real function and violates the contract'}
            self.violation(f'{contract.name}#native:{bad[0][:120]}', f'{contract.name}' + (' (undecided by the verifier on the current source)' if und else '') + f' violates its contract on input {rec["input"]}: real code gives {rec["native_outcome"]}, violating {bad}', rec)

    def handle_failed(self, contract, ob):
        key = re.sub(r' ?@path\d+', '', f'{contract.name}#{ob.clause}')        # one violation per clause, not per path
        rec = {'obligation': ob.name, 'function': contract.target, 'clause': ob.clause, 'verifier_output': ob.record()}
        if ob.model is not None and contract.replay is not None:
            try:
                lower = contract.replay.lower
                if contract.replay.lower_z3: pyargs = contract.replay.lower_z3(ob.z3model, ob)
                else: pyargs = lower(ob.model) if lower else {k: lower_param(contract.params[k], k, ob.model) for k in contract.params}
                outcome = native_outcome(contract, pyargs)
                if contract.replay.judge: pre, bad = True, contract.replay.judge(pyargs, outcome, ob)
                else: pre, bad = native_check(contract, pyargs, outcome)
                rec.update(input={k: repr(v) for k, v in pyargs.items()}, native_outcome=[outcome[0], repr(outcome[1])], natively_violated=bad)
                if pre and bad:
                    self.violation(key, f'{ob.name} fails for input {rec["input"]}: real code gives {rec["native_outcome"]}, violating {bad}', rec)
                    return
                # the solver's model does not reproduce on the real code: the engine's semantics are wrong here (or the lowering lost part of the model:
                # contracts with a native search get a second chance below before this is called a checker fault)
                if contract.replay.search and contract.replay.judge:
                    for py2 in contract.replay.search():
                        out2 = native_outcome(contract, py2); bad2 = contract.replay.judge(py2, out2, ob)
                        if bad2:
                            rec.update(input={k: repr(v) for k, v in py2.items()}, native_outcome=[out2[0], repr(out2[1])], natively_violated=bad2, found_by='native search (the solver model did not lower to a reproducing input)')
                            self.violation(key, f'{ob.name} fails; failing input {rec["input"]}: real code gives {rec["native_outcome"]}, violating {bad2}', rec)
                            return
                self.faults.append(f'{ob.name}: model {ob.model} does not reproduce natively (pre={pre}, outcome={rec["native_outcome"]}) -- checker fault')
                return
            except KeyError as ex:
                rec['replay_note'] = f'no generic lowering ({ex}); reported without a concrete input'
            except Exception as ex:
                rec['replay_note'] = f'replay harness failed: {type(ex).__name__}: {ex}'
        rp = contract.replay
        if rp is not None and rp.search and rp.judge and 'native_outcome' not in rec:
            try:
                for pyargs in rp.search():
                    outcome = native_outcome(contract, pyargs)
                    bad = rp.judge(pyargs, outcome, ob)
                    if bad:
                        rec.update(input={k: repr(v) for k, v in pyargs.items()}, native_outcome=[outcome[0], repr(outcome[1])], natively_violated=bad, found_by='native search after the failed obligation')
                        self.violation(key, f'{ob.name} is no longer discharged; failing input {rec["input"]}: real code gives {rec["native_outcome"]}, violating {bad}', rec)
                        return
            except Exception as ex:
                rec['replay_note'] = f'native search failed: {type(ex).__name__}: {ex}'
        self.violation(key, f'{ob.name} is no longer discharged (solver: {ob.result}, model: {ob.model})', rec, no_input=True)

    # ---- lemmas over contracts
    def lemma(self, name, claim, assumptions=(), model_vars=None):
        ob = Obligation('lemma', name, 'lemma', list(assumptions), claim, True)
        if assumptions:        # vacuity guard: the hypotheses of a lemma must be satisfiable together
            so = z3.Solver(); so.set('timeout', 5000); so.add(*assumptions)
            if so.check() == z3.unsat:
                self.faults.append(f'lemma {name}: its assumptions are contradictory (vacuous)')
        discharge(ob, model_vars)
        self.lemmas.append(ob)
        if ob.result != 'discharged':
            if ob.result == 'undecided': self.undecided_notes.append(f'lemma {name}: {ob.detail}')
            else:
                self.violation(f'lemma#{name}', f'lemma {name} fails (model {ob.model})', {'obligation': name, 'verifier_output': ob.record()}, no_input=True)
        return ob

    def canary(self, contract, src_root=None):
        """vacuity guard: a deliberately false postcondition on a reachable path of the last report must be refuted (the pipeline can fail)"""
        rep = next((r for r in reversed(self.reports) if r.contract is contract), None)
        ok = False; timed_out = False
        if rep is not None and rep.status == 'ok':
            for kind, p, v in list(getattr(rep, 'outs', []))[:10]:
                ob = Obligation(contract.name, 'canary-false', 'canary', p.pc, z3.BoolVal(False), True)
                discharge(ob, None, use_external=False)
                if ob.result == 'failed':
                    ok = True; break
                if ob.result == 'undecided': timed_out = True          # solver timeout on this path (busy machine): says nothing about vacuity, try the next path
        self.canaries.append({'function': contract.name, 'refuted': ok})
        if rep is not None and rep.status == 'ok' and not ok:
            if timed_out: self.undecided_notes.append(f'canary for {contract.name}: the solver timed out on the reachability query (no verdict on vacuity in this run)')
            else: self.faults.append(f'canary for {contract.name} was not refuted: pipeline vacuous')
        return ok

    # ---- tier B: bounded stand-in
    def bounded(self, name, cases, check, classify=None, bound='', max_samples=3, stop_after=50):
        """cases: iterable of case objects; check(case) -> None | (key, what, record) ; classify(case) -> hashable class"""
        t0 = time.time(); n = 0; classes = set(); samples = []; found = 0
        for case in cases:
            n += 1
            if classify is not None:
                try: classes.add(classify(case))
                except Exception: pass
            if len(samples) < max_samples or self.rng.random() < 0.002:
                s = repr(case)
                samples.append(s if len(s) < 400 else s[:400] + '...')
                if len(samples) > max_samples * 3: samples.pop(self.rng.randrange(len(samples)))
            try:
                r = check(case)
            except Exception as ex:
                # an exception that comes out of the library under test in a step the check needs (it succeeds on the unchanged tree) is a failure of the
                # library on an input the property quantifies over, not of the harness: reported as a violation with the case; anything else is a checker fault
                frames = traceback.extract_tb(ex.__traceback__)
                if any('/stix2/' in f.filename.replace('\\', '/') and '/verif/' not in f.filename for f in frames):
                    found += 1
                    where = next((f'{f.filename.split("/stix2/")[-1]}:{f.name}' for f in reversed(frames) if '/stix2/' in f.filename and '/verif/' not in f.filename), '?')
                    self.violation(f'{name}#a library operation the check relies on failed:{type(ex).__name__} in {where}', f'{case!r}: {type(ex).__name__}: {ex}',
                                   {'bounded_check': name, 'case': repr(case), 'traceback': traceback.format_exc(limit=8)})
                    if found >= stop_after: break
                    continue
                self.faults.append(f'bounded {name}: harness exception on {case!r}: {type(ex).__name__}: {ex}\n{traceback.format_exc(limit=4)}')
                if len(self.faults) > 5: break
                continue
            if r:
                key, what, rec = r
                found += 1
                self.violation(key, what, dict(rec, bounded_check=name, case=repr(case)))
                if found >= stop_after: break
        run = {'name': name, 'bound': bound, 'evaluations': n, 'distinct_classes': len(classes) if classify else None,
               'witnesses': found, 'wall_s': round(time.time() - t0, 2), 'samples': samples[:max_samples]}
        self.bounded_runs.append(run)
        self.say(f'  [B] {name}: evaluations={n} classes={run["distinct_classes"]} witnesses={found} ({run["wall_s"]}s) bound: {bound}')
        return run

    # ---- finish
    def finish(self):
        obs = [o for r in self.reports for o in r.obligations] + self.lemmas
        n_ob = len(obs); n_dis = sum(o.result == 'discharged' for o in obs)
        by_backend = {}
        for o in obs:
            if o.result == 'discharged': by_backend[o.backend] = by_backend.get(o.backend, 0) + 1
        evals = sum(b['evaluations'] for b in self.bounded_runs)
        distinct = sum((b['distinct_classes'] or 0) for b in self.bounded_runs)
        fns = [{'function': r.contract.target, 'status': r.status, 'paths': r.paths, 'obligations': len(r.obligations),
                'discharged': len(r.discharged), 'failed': len(r.failed), 'undecided': len(r.undecided),
                'solver_ms': round(sum(o.ms for o in r.obligations), 1), 'source_sha': r.source_sha,
                **({'reason': r.reason} if r.reason else {}), **({'unmodelled_callees': r.unknown_calls} if r.unknown_calls else {})}
               for r in self.reports]
        samples = [o.record() for o in obs[:3]] + [s for b in self.bounded_runs for s in b['samples'][:2]]
        level = self.level
        undec_fns = [r for r in self.reports if r.status != 'ok']
        if level == 'proof' and (n_dis != n_ob or undec_fns or n_ob == 0):
            level = 'other'      # a proof-level claim is only recorded when every obligation was discharged on this run
        cov = {
            'obligations': n_ob, 'discharged': n_dis,
            'checker_cmd': f'./check {self.id} --tier {self.tier}',
            'trusted_base': self.trusted + ['PyVC encoding of the stated Python subset (vf/pyvc/engine.py)', 'z3 5.1 / cvc5 soundness'],
            'evaluations': max(evals, n_ob, 1), 'distinct_nontrivial': max(distinct, len({o.clause for o in obs}), 0),
            'rule': 'P: one obligation per (function, clause, path) generated from the current source, distinct = distinct clause names; '
                    'B: cases enumerated by the deterministic domain generators named in bounded_runs, distinct = classes by the per-domain classifier',
            'samples': samples or ['(none)'],
            'explanation': self.explanation,
            'functions_under_contract': fns,
            'lemmas': [o.record() for o in self.lemmas],
            'discharged_by_backend': by_backend,
            'solver_s': round(sum(o.ms for o in obs) / 1000, 3),
            'pruning_sat_calls': E.STATS['sat_calls'], 'pruning_solver_s': round(E.STATS['solver_s'], 3),
            'bounded_runs': self.bounded_runs,
            'canaries': self.canaries,
            'undecided': self.undecided_notes,
            'known_findings_hit': [k for k, _ in self.known_hits],
            'checker_faults': self.faults,
            'exhaustive': False,
            **self.extra,
        }
        ev = {'property_id': self.id, 'tier': self.tier, 'seed': self.seed, 'level': level, 'coverage': cov,
              'assumptions': self.assumptions, 'wall_s': round(time.time() - self.t0, 2), 'violations': len(self.violations)}
        os.makedirs(os.path.join(ROOT, 'evidence'), exist_ok=True)
        json.dump(ev, open(os.path.join(ROOT, 'evidence', f'{self.id}.json'), 'w'), indent=1, default=str)
        self.say(f'{self.id} [{self.tier}] level={level} obligations={n_ob} discharged={n_dis} bounded_evaluations={evals} '
                 f'violations={len(self.violations)} known={len(self.known_hits)} undecided={len(self.undecided_notes)} faults={len(self.faults)} '
                 f'wall={ev["wall_s"]}s')
        for u in self.undecided_notes[:20]: self.say('  undecided: ' + u)
        for f in self.faults[:10]: self.say('  CHECKER-FAULT: ' + f)
        if self.violations: return 1
        if self.faults: return 3
        return 0
