"""Relational lemmas from the path summaries of a verified function.

A single-call contract cannot say "this comparator is antisymmetric / transitive": those are statements about two and three calls.  After a
function has been executed symbolically its outcomes ARE a summary -- a finite list of (path condition, result term) over the parameter
constants.  `Summary.apply` instantiates that summary on other argument terms (z3.substitute), so the relational statement becomes an ordinary
formula over two or three instances of the *real code's* summary, discharged like any other obligation.  Nothing here knows what the code does:
a change of the code changes the summary, and the lemma is decided again.

Sound only if (a) every outcome is an exact normal return (no havoc, no exception) and (b) the path conditions and results mention no constants
other than the parameters' -- both are checked; otherwise the summary is refused (lemmas undecided, never a violation)."""
import z3
from .pyvc.engine import Val


def _consts(t, acc=None, seen=None):
    acc = set() if acc is None else acc; seen = set() if seen is None else seen
    stack = [t]
    while stack:
        u = stack.pop()
        if u.get_id() in seen: continue
        seen.add(u.get_id())
        if z3.is_const(u) and u.decl().kind() == z3.Z3_OP_UNINTERPRETED: acc.add(u)
        elif z3.is_quantifier(u): stack.append(u.body())
        else: stack.extend(u.children())
    return acc


def leaf_terms(v):
    """z3 constants carried by a parameter value, in a fixed order"""
    if v.sort in ('int', 'bool', 'str', 'dt', 'td') or v.sort.startswith('enum:'): return [v.t]
    if v.sort == 'rec': return [t for k in sorted(v.x) if isinstance(v.x[k], Val) for t in leaf_terms(v.x[k])]
    if v.sort.startswith('opt:'): return [v.t[0]] + leaf_terms(v.t[1])
    if z3.is_expr(v.t): return [v.t]          # a token of a contract-declared abstract sort
    return []


class Summary:
    def __init__(self, rep, params):
        """rep: FunctionReport of a decided contract; params: ordered parameter names"""
        self.ok = False; self.why = ''
        if rep.status != 'ok' or not getattr(rep, 'outs', None):
            self.why = f'function not decided ({rep.reason})'; return
        x = rep.executor
        self.formals = [leaf_terms(x.params[n]) for n in params]
        flat = {t.get_id() for f in self.formals for t in f}
        self.cases = []
        nreq = len(rep.contract.requires)
        for kind, p, v in rep.outs:
            if kind != 'return' or not p.exact or not isinstance(v, Val) or v.sort not in ('int', 'bool'):
                self.why = f'outcome {kind} (exact={p.exact}) is not an exact int/bool return'; return
            pc = z3.And(*p.pc[nreq:]) if len(p.pc) > nreq else z3.BoolVal(True)
            for c in _consts(pc) | _consts(v.t):
                if c.get_id() not in flat:
                    self.why = f'summary mentions {c}, which is not a parameter'; return
            self.cases.append((pc, v.t))
        self.requires = [z3.And(*[r(x.params) for _, r in rep.contract.requires])] if rep.contract.requires else []
        self.ok = True

    def apply(self, *actuals):
        """result term of the function on the given actuals (each a list of z3 terms matching leaf_terms of the formal): nested if-then-else over the
        paths, which are exhaustive and exclusive under the precondition (they come from a deterministic program)"""
        sub = [(f, a) for fs, as_ in zip(self.formals, actuals) for f, a in zip(fs, as_)]
        t = None
        for pc, r in reversed(self.cases):
            pc1, r1 = z3.substitute(pc, *sub), z3.substitute(r, *sub)
            t = r1 if t is None else z3.If(pc1, r1, t)
        return t

    def pre(self, *actuals):
        sub = [(f, a) for fs, as_ in zip(self.formals, actuals) for f, a in zip(fs, as_)]
        return [z3.substitute(r, *sub) for r in self.requires]


def sgn(t): return z3.If(t < 0, -1, z3.If(t > 0, 1, 0))


def order_lemmas(F, dom, mk, label=''):
    """F(a, b) -> z3 int term; dom(a) -> [z3 Bool] (precondition on one argument); mk(name) -> fresh actual.  Returns [(name, assumptions, claim)]:
    the sign of F is reflexive, antisymmetric and transitive, i.e. `F(a,b) <= 0` is a total preorder (what sorted() and the final comparison need)."""
    a, b, c = mk('a'), mk('b'), mk('c')
    return [
        (f'{label}reflexive: cmp(a, a) == 0', dom(a), F(a, a) == 0),
        (f'{label}antisymmetric: sign cmp(a, b) == - sign cmp(b, a)', dom(a) + dom(b), sgn(F(a, b)) == -sgn(F(b, a))),
        (f'{label}transitive: cmp(a, b) <= 0 and cmp(b, c) <= 0 => cmp(a, c) <= 0', dom(a) + dom(b) + dom(c), z3.Implies(z3.And(F(a, b) <= 0, F(b, c) <= 0), F(a, c) <= 0)),
    ]
