#!/bin/sh
# Builds /verif/.venv offline: python 3.12 (the interpreter that runs the repo) + z3/cvc5/crosshair/deal/icontract
# from the offline wheelhouse, with /venv's site-packages (the repo's own deps and the editable stix2 -> /repo) on the path.
set -e
cd "$(dirname "$0")"
V=.venv
if [ -x "$V/bin/python" ] && "$V/bin/python" -c "import z3, jsonschema, pytz" 2>/dev/null; then exit 0; fi
rm -rf "$V"
/venv/bin/python -m venv "$V"
PIP_NO_INDEX=1 "$V/bin/pip" install -q --no-index --find-links /opt/veriftools/wheels z3-solver cvc5 crosshair-tool deal icontract jsonschema >/dev/null
echo "import site; site.addsitedir('/venv/lib/python3.12/site-packages')" > "$V/lib/python3.12/site-packages/_repo_deps.pth"
"$V/bin/python" -c "import z3, stix2, jsonschema; print('venv ok', z3.get_version_string(), stix2.__file__)"
